"""Task used by Engine K (crash-point exploration of the real TaskRunner)."""
import os
import sys
import time

from experimaestro import Param, Task


class CrashTask(Task):
    __xpmid__ = "k.crashtask"
    code: Param[int] = 0
    how: Param[str] = "exit"

    def execute(self):
        with open("exec.log", "a") as fp:
            fp.write("start\n")
        # (used by the three-process exploration: the body stays open while the file `hold` exists)
        if os.path.exists("hold"):
            deadline = time.time() + 10
            while os.path.exists("hold") and time.time() < deadline:
                time.sleep(0.002)
        x = 0
        for i in range(2):
            x += i
        with open("exec.log", "a") as fp:
            fp.write("end\n")
        if self.how == "raise":
            raise RuntimeError("task failed")
        if self.code:
            sys.exit(self.code)
