"""Closed universe of configuration classes used by Engine G (and as job classes by Engine W).

The schema of these classes is written a second time, by hand, in engines/refmodel.py (SCHEMA); a
consistency check compares the two at the start of every check.
"""
from enum import Enum
from pathlib import Path
from typing import Annotated, Dict, List, Optional

from experimaestro import (
    Config,
    DataPath,
    Constant,
    LightweightTask,
    Meta,
    Option,
    Param,
    Task,
    deprecate,
    pathgenerator,
)

#: observation log used by C13 (objects are kept in the log so that their ids cannot be recycled)
LOG = []


def _post(self):
    """Logged by every class: which of its parameters are already readable when __post_init__ runs."""
    names = list(type(self).__getxpmtype__().arguments)
    LOG.append(("post", self, {n: hasattr(self, n) for n in names}))


class Color(Enum):
    RED = 0
    RE = 1
    GREEN = 2


class Leaf(Config):
    __xpmid__ = "u.leaf"
    __post_init__ = _post
    i: Param[int]
    f: Param[float] = 0.5
    s: Param[str] = "d"
    b: Param[bool] = False
    e: Param[Color] = Color.RED
    o: Param[Optional[int]] = None
    on: Param[Optional[int]] = 3
    p: Param[Path] = Path("/x")
    m: Meta[int] = 0
    opt: Option[str] = "o"
    c: Constant[int] = 1
    gen: Annotated[Path, pathgenerator("leaf.txt")]



class Leafx(Leaf):
    """Type identifier prefix-related to u.leaf; usable wherever a Leaf is."""
    __xpmid__ = "u.leafx"

    def __len__(self):
        # a user class may well be an (empty) collection: configuration and runtime object are then falsy
        return 0


class Dat(Config):
    """A configuration that carries a data file (copied next to the definition when the configuration is saved)."""
    __xpmid__ = "u.dat"
    v: Param[int] = 0
    data: DataPath


class DatBox(Config):
    __xpmid__ = "u.datbox"
    d: Param[Dat]
    e: Param[Optional[Dat]] = None


class Box(Config):
    __xpmid__ = "u.box"
    __post_init__ = _post
    child: Param[Leaf]
    ochild: Param[Optional[Leaf]] = None
    mchild: Meta[Optional[Leaf]] = None
    lst: Param[List[Leaf]] = []
    dct: Param[Dict[str, Leaf]] = {}
    li: Param[List[int]] = []
    lli: Param[List[List[int]]] = []
    di: Param[Dict[str, int]] = {}
    ddi: Param[Dict[str, Dict[str, int]]] = {}
    dli: Param[Dict[str, List[int]]] = {}
    ldi: Param[List[Dict[str, int]]] = []
    ls: Param[List[str]] = []
    lll: Param[List[List[Leaf]]] = []
    dll: Param[Dict[str, List[Leaf]]] = {}
    ldl: Param[List[Dict[str, Leaf]]] = []
    sa: Param[str] = "d"
    sb: Param[str] = "d"
    gen: Annotated[Path, pathgenerator("box.txt")]



class Ring(Config):
    __xpmid__ = "u.ring"
    __post_init__ = _post
    v: Param[int] = 0
    nxt: Param[Optional["Ring"]] = None
    alt: Param[Optional["Ring"]] = None
    box: Param[Optional[Box]] = None



class Out(Config):
    __xpmid__ = "u.out"
    __post_init__ = _post
    v: Param[int] = 0


class Holder(Config):
    __xpmid__ = "u.holder"
    __post_init__ = _post
    t: Param[Optional["Job"]] = None
    o: Param[Optional[Out]] = None
    lt: Param[List["Job"]] = []
    dt: Param[Dict[str, "Job"]] = {}
    mt: Meta[Optional["Job"]] = None
    inner: Param[Optional["Holder"]] = None
    leaf: Param[Optional[Leaf]] = None


class Job(Task):
    __xpmid__ = "u.job"
    __post_init__ = _post
    x: Param[int] = 0
    code: Meta[int] = 0
    up: Param[Optional["Job"]] = None
    ups: Param[List["Job"]] = []
    upd: Param[Dict[str, "Job"]] = {}
    oin: Param[Optional[Out]] = None
    h: Param[Optional[Holder]] = None
    cfg: Param[Optional[Box]] = None
    ring: Param[Optional[Ring]] = None
    out: Annotated[Path, pathgenerator("out.txt")]

    def execute(self):
        LOG.append(("body", self))


class JobOut(Task):
    __xpmid__ = "u.jobout"
    __post_init__ = _post
    x: Param[int] = 0
    code: Meta[int] = 0
    up: Param[Optional[Job]] = None

    def task_outputs(self, dep):
        return dep(Out(v=self.x))

    def execute(self):
        LOG.append(("body", self))


class JobX(Job):
    """A task that can be used as a task-typed value *and* defines task_outputs (its own object is then marked by submit(), besides
    the output configuration)."""
    __xpmid__ = "u.jobx"

    def task_outputs(self, dep):
        return dep(Out(v=self.x))


class JobMark(Task):
    """A task whose output is one of its own (already sealed and identified) parameter configurations, marked as
    depending on the task (used by the `marked own parameter` family of C03)."""
    __xpmid__ = "u.jobmark"
    x: Param[int] = 0
    code: Meta[int] = 0
    leafp: Param[Leaf]

    def task_outputs(self, dep):
        return dep(self.leafp)

    def execute(self):
        LOG.append(("body", self))


class JobMarkx(JobMark):
    __xpmid__ = "u.jobmarkx"


class Dbox(Config):
    """A parameter whose default is itself a configuration (with a generated path and ignored parameters below it)."""
    __xpmid__ = "u.dbox"
    v: Param[int] = 0
    d: Param[Leaf] = Leaf(i=3)
    db: Param[Optional[Box]] = None


class DboxV2(Dbox):
    __xpmid__ = "u.dbox"
    n: Param[Leaf] = Leaf(i=4, s="n")


class JobD(Task):
    __xpmid__ = "u.jobd"
    x: Param[int] = 0
    code: Meta[int] = 0
    cfg: Param[Dbox] = Dbox()

    def execute(self):
        LOG.append(("body", self))


class PreT(LightweightTask):
    __xpmid__ = "u.pre"
    __post_init__ = _post
    k: Param[int] = 0
    leaf: Param[Optional[Leaf]] = None
    h: Param[Optional[Holder]] = None

    def __len__(self):
        # falsy for even k (also the default)
        return self.k % 2

    def execute(self):
        LOG.append(("exec", self))


class InitT(LightweightTask):
    __xpmid__ = "u.init"
    __post_init__ = _post
    k: Param[int] = 0
    h: Param[Optional[Holder]] = None

    def __bool__(self):
        return self.k % 2 == 1

    def execute(self):
        LOG.append(("exec", self))


# ---- class extension twins (same type identifier, one extra defaulted / Meta / generated parameter)
class LeafV2(Leaf):
    __xpmid__ = "u.leaf"
    # new in "version 2"
    a_new: Param[int] = 7
    n_meta: Meta[int] = 3
    z_gen: Annotated[Path, pathgenerator("new.txt")]
    n_list: Param[List[int]] = []
    n_opt: Param[Optional[Leaf]] = None
    # a default written with a literal of another type than the declared one (stored values are coerced, the default is not)
    n_fl: Param[float] = 0


class BoxV2(Box):
    __xpmid__ = "u.box"
    # new in "version 2"
    a_new: Param[str] = "n"
    n_dict: Param[Dict[str, int]] = {}
    sab: Param[str] = "d"


# ---- deprecated twins: using the old class must give the identifier of the replacement
@deprecate
class LeafOld(Leaf):
    __xpmid__ = "u.leaf_old"


@deprecate
class BoxOld(Box):
    __xpmid__ = "old.box"


@deprecate
class JobOld(Job):
    __xpmid__ = "u.job_old"


@deprecate
class PreTOld(PreT):
    __xpmid__ = "u.pre_old"


@deprecate
class JobOutOld(JobOut):
    __xpmid__ = "u.jobout_old"
