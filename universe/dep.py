"""Deprecated pairs used by C20 (b): a class whose type identifier moved (same last component) and a renamed class."""
from experimaestro import Meta, Param, Task


class NewMoved(Task):
    __xpmid__ = "b.model"
    x: Param[int]
    code: Meta[int] = 0

    def execute(self):
        pass


class OldMoved(NewMoved):
    __xpmid__ = "a.model"


class NewT(Task):
    __xpmid__ = "dep.newt"
    x: Param[int]
    code: Meta[int] = 0

    def execute(self):
        pass


class OldT(NewT):
    __xpmid__ = "dep.oldt"


def set_deprecated(cls, flag: bool):
    """Harness-side switch between "the program before the class was deprecated" and "after"."""
    xt = cls.__getxpmtype__()
    if flag and not xt._deprecated:
        xt.deprecate()
    elif not flag and xt._deprecated:
        xt.identifier = xt._deprecated_identifier
        xt._deprecated = False


# ---- two classes that get deprecated one after the other (the identifier of a stored job changes twice)
from experimaestro import Config  # noqa: E402


class NewA(Config):
    __xpmid__ = "dep.newa"
    v: Param[int] = 0


class OldA(NewA):
    __xpmid__ = "dep.olda"


class NewB(Config):
    __xpmid__ = "dep.newb"
    v: Param[int] = 0


class OldB(NewB):
    __xpmid__ = "dep.oldb"


class Learn2(Task):
    __xpmid__ = "dep.learn"
    x: Param[int]
    a: Param[NewA]
    b: Param[NewB]
    code: Meta[int] = 0

    def execute(self):
        pass


# ---- a job that depends on a deprecated class only through the output of an upstream task
class PrepOut(Config):
    __xpmid__ = "dep.prepout"
    v: Param[int] = 0


class Prep(Task):
    __xpmid__ = "dep.prep"
    x: Param[int]
    p: Param[NewA]
    code: Meta[int] = 0

    def task_outputs(self, dep):
        return dep(PrepOut(v=self.x))

    def execute(self):
        pass


class Use(Task):
    __xpmid__ = "dep.use"
    x: Param[int]
    data: Param[PrepOut]
    code: Meta[int] = 0

    def execute(self):
        pass
