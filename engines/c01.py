"""C01 — a configuration's identifier is a pure function of its content (Engine G)."""
from __future__ import annotations

import json

from . import refmodel as R
from .common import VERIF, Result, clip_samples, HarnessError
from .genspace import enumerate_with_seeds, seeds
from .pool import Pool

PROPERTY = "C01"
LEVEL = "exploration"
PINS = VERIF / "pins" / "identifiers.json"

ROOTS = ["leaf", "box", "ring", "job", "holder", "jobout"]
SEEDS = ["ring1", "ring2", "ring3", "ring3mid", "ring-below", "ring-diamond", "box-meta", "box-shared", "job-up", "job-holder", "job-outpre", "job-upx", "job-ring"]


def space(ctx, scale=1):
    if ctx.quick:
        return enumerate_with_seeds(ROOTS, SEEDS, N=4, k=2, Nseed=None, kseed=1)
    return enumerate_with_seeds(ROOTS, SEEDS, N=5, k=3, Nseed=None, kseed=2)


def hash_seeds(ctx, n=16):
    return [(s + ctx.seed) % 4096 for s in range(n)]


def graph_kind(G):
    from .graphs import has_cycle
    return "cyclic" if has_cycle(G) else "acyclic"


def run(ctx):
    res = Result(ctx, LEVEL)
    descs, hist, capped = space(ctx)
    pins = json.loads(PINS.read_text()) if PINS.exists() else []
    items, which = [], []
    for i, d in enumerate(descs):
        items.append({"G": d, "variants": "orders"})
        which.append(i + ctx.seed)
        items.append({"G": d, "variants": "styles"})
        which.append(i + ctx.seed + 1)
    with Pool(seeds=hash_seeds(ctx), init="engines.gwork:init", recycle=4000) as pool:
        outs = pool.map_on("engines.gwork:eval_c01", items, which)
        pin_out = pool.map_on("engines.gwork:eval_ids", [{"G": p["G"]} for p in pins], [i + ctx.seed for i in range(len(pins))])
        marked = pool.map_on("engines.gwork:eval_marked", [{}, {}], [ctx.seed, ctx.seed + 1])
        from .twork import run_family
        tviol, tstats = run_family(pool, ctx, vs=(1,))
        # "built in another process": the configuration written out and loaded back (stored identifiers kept by the loader)
        reloaded = pool.map("engines.gwork:eval_c12", [{"G": d, "route": "json-keepid"} for d in descs])
    requests = sum(o["requests"] for o in outs)
    histories = sum(o["histories"] for o in outs)
    sigs = set()
    for it, o in zip(items, outs):
        sigs.add(o["sig"])
        for m in o["mismatches"]:
            G = it["G"]
            kind = graph_kind(G)
            if m["kind"] == "raises":
                key = f"history-raises:{kind}:{m['error'].split(':')[0]}"
                msg = f"building / identifying {json.dumps(G)[:400]} with history {m['history']} raised {m['error']}"
            elif m["kind"] == "relpath":
                key = f"relpath:{kind}"
                msg = f"job directory {m['real']} != {m['expected']} for {json.dumps(G)[:400]}"
            else:
                sealed = "sealed" if m["phase"] != "pre" else "unsealed"
                key = f"identifier:{sealed}:{kind}"
                msg = (f"node {m['label']} of {json.dumps(G)[:600]} got identifier {m['real'][:16]} (raw {m['real_raw'][:16]}) in phase "
                       f"{m['phase']} of history style={m['history'][0]} reversed={m['history'][1]} request-order={m['history'][2]}; "
                       f"content-determined value is {m['expected'][:16]} (raw {m['expected_raw'][:16]})")
            res.violation(key, msg, {"G": G, "history": m.get("history"), "mismatch": m})
    # family "task output = own parameter of the task": same content => same identifier, whenever the identifier of the
    # parameter was requested (never / before the submission / after it / both), in two processes
    msig = {}
    for rows in marked:
        for r in rows:
            if "error" in r:
                res.violation("history-raises:marked-parameter", json.dumps(r)[:800], {"marked": r})
            else:
                msig.setdefault(r["sig"], {}).setdefault(r["id"], r)
    for sg, ids in msig.items():
        if len(ids) > 1:
            a, b = list(ids.values())[:2]
            res.violation("identifier:marked-parameter", f"(embedder, leaf value, producing task) {sg}: identifier {a['id'][:16]} when the parameter's identifier "
                          f"is requested '{a['hist']}', {b['id'][:16]} when '{b['hist']}'", {"marked": [a, b]})
    # ... and equals the identifier that the pinned commit gives to that (embedder, value, producing task) (pins/marked.json)
    mpins = json.loads((VERIF / "pins" / "marked.json").read_text()) if (VERIF / "pins" / "marked.json").exists() else {}
    for sg, ids in msig.items():
        want = mpins.get(sg)
        for r in ids.values():
            if want is not None and [r["id"], r["raw"]] != want:
                res.violation("pinned:marked-parameter", f"(embedder, leaf value, producing task) {sg}, requested '{r['hist']}': identifier {r['id'][:16]} "
                              f"(raw {r['raw'][:16]}), pinned {want[0][:16]} (raw {want[1][:16]})", {"marked": [r], "pinned": want})
    requests_marked = sum(len(rows) for rows in marked)
    for d, o in zip(descs, reloaded):
        for p in o["problems"]:
            if p["kind"] == "identifier-differs":
                res.violation(f"identifier:reloaded:{p.get('where', 'root')}", f"written out and loaded back (identifiers kept by the loader), {p.get('where', 'root')}: "
                              f"{str(p.get('before'))[:16]} -> {str(p.get('after'))[:16]} {p.get('nodes') or ''} for {json.dumps(d)[:500]}", {"G": d, "reloaded": p})
    # two user threads (real threads, every schedule with <= 1 preemption at the traced line / call events)
    for kind, key, msg, payload in tviol:
        if kind != "collision":
            res.violation(key, msg, payload)
    npin_bad = 0
    for p, o in zip(pins, pin_out):
        if o.get("error") or o.get("id") != p["id"]:
            npin_bad += 1
            res.violation(f"pinned:{graph_kind(p['G'])}", f"pinned identifier {p['id'][:16]} of {json.dumps(p['G'])[:500]} is now {o.get('id') or o.get('error')}",
                          {"G": p["G"], "pinned": p["id"], "now": o})
    res.coverage = {
        "evaluations": requests + requests_marked + tstats["executions"] + len(reloaded),
        "reloaded_descriptions": len(reloaded),
        "two_threads_family": tstats,
        "marked_parameter_family": {"cases": requests_marked, "distinct_contents": len(msig)},
        "distinct_nontrivial": len(sigs),
        "rule": "every description within (N nodes, k deviations) from the default graph of each root class and from the seed graphs "
                "(cycles, sharing, meta elements, tasks/outputs/pre/init tasks) x histories {kwargs|assignment construction, forward|reverse "
                "keyword and dict insertion order, identifier requests on all nodes in every order (all permutations for graphs with sharing "
                "or cycles and for <=3 nodes, else forward+backward) before sealing, after sealing, and again in reverse} evaluated in two "
                "worker processes with different PYTHONHASHSEED; evaluations = identifier requests compared with the reference encoder; "
                "distinct_nontrivial = distinct canonical signatures among the descriptions; plus the family 'two user threads' (Engine T: real threads computing "
                "identifiers / sealing / instantiating configurations that share sub-configurations, every schedule with <= 1 preemption at the "
                "traced events of core/objects.py; observations must equal the sequential ones)",
        "samples": clip_samples([descs[0], descs[len(descs) // 2], descs[-1]]),
        "exhaustive": not capped,
        "descriptions": len(descs), "histories": histories, "depth_histogram": hist,
        "pinned_identifiers": len(pins), "pinned_mismatches": npin_bad,
        "hash_seeds": sorted(set(hash_seeds(ctx))),
        "bounds": {"N": 4 if ctx.quick else 5, "k": 2 if ctx.quick else 3},
    }
    res.assumptions = [
        "no earlier release is available offline: the pin table was generated from the pinned commit and is cross-checked by the independent encoder",
        "cyclic graphs and graphs embedding a task on a cycle cannot be submitted (RecursionError in updatedependencies) and are sealed with seal() instead",
        "the root's init tasks only become part of its content when it is submitted; identifier requests before that are compared without them",
    ]
    return res


def replay(ctx, payload):
    from . import gwork
    gwork.init()
    if "marked" in payload:
        print(json.dumps(payload["marked"], indent=1))
        return 0
    if "threads" in payload:
        from . import twork
        return twork.replay(payload)
    if "reloaded" in payload:
        from . import gwork
        gwork.init()
        print(json.dumps(payload["G"]))
        print(gwork.eval_c12({"G": payload["G"], "route": "json-keepid"}))
        return 0
    G = payload["G"]
    print("description:", json.dumps(G))
    h = payload.get("history")
    if h:
        obs = gwork.run_history(G, h[0], h[1], h[2])
        for o in obs:
            if o[0] == "relpath":
                print(o)
            else:
                sealed = o[0] != "pre"
                print(o[0], o[1], "real", o[2][:16], "expected", gwork.expected(G, o[1], sealed and gwork.is_task(G, G["root"]) and not gwork.Gr.has_cycle(G))[:16])
    else:
        print(gwork.eval_ids({"G": G}), "pinned", payload.get("pinned"))
    return 0
