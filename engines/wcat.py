"""Engine W, part 6: the scenario catalogue (drivers)."""
from __future__ import annotations

import itertools

#: default policies ("centres" of the deviation-bounded search): FIFO, LIFO, job processes first, and priority orders
#: over actor kinds (e.g. observers last = notifications arrive late; jobs last = processes are slow; threads last =
#: helper threads complete late; loop last = the scheduler loop is slow)
POL_WIDE = ("FIFO", "LIFO", "JOBS", "P:loop,thread,job,main,observer", "P:loop,main,job,observer,thread",
            "P:thread,job,observer,main,loop", "P:main,loop,thread,observer,job", "P:observer,thread,loop,job,main")

# one simulated scheduler process is fast, the other slow; job processes first / in between / last
POL_PROC = ("Q:2,1,job", "Q:1,2,job", "Q:2,job,1", "Q:1,job,2", "Q:job,2,1", "Q:job,1,2")

JOB_KINDS = ["up", "ups", "upd", "holder", "holder2", "mt", "pre", "init", "explicit"]
OUT_KINDS = ["oin", "holder-o", "pre-o", "explicit"]
SLOT = {"up": "up", "holder": "h", "holder2": "h", "mt": "h", "holder-o": "h", "oin": "oin"}   # single-valued parameters


def J(var, x, deps=(), code=0, tok=(), **kw):
    return dict({"op": "job", "var": var, "x": x, "code": code, "deps": [list(d) for d in deps], "tok": [list(t) for t in tok]}, **kw)


def XP(name, body, **kw):
    return dict({"op": "xp", "name": name, "body": body}, **kw)


def TOK(var, cap, name="tok", kind="file"):
    return {"op": "token", "var": var, "name": name, "cap": cap, "kind": kind}


def dag_edge_sets(n):
    pairs = [(i, j) for j in range(n) for i in range(j)]
    for r in range(len(pairs) + 1):
        for es in itertools.combinations(pairs, r):
            yield list(es)


def topo_orders(n, edges):
    for perm in itertools.permutations(range(n)):
        pos = {v: i for i, v in enumerate(perm)}
        if all(pos[a] < pos[b] for a, b in edges):
            yield list(perm)


def dag_jobs(n, edges, order, rot=0, failing=(), tokens=None):
    """Job ops for a DAG: every edge realised by an embedding kind, rotated by `rot` so that over the rotations every
    kind appears on every edge position."""
    has_out = {i: False for i in range(n)}
    # upstream nodes that are task-output producers: must not be used as plain job values
    for i in range(n):
        outs = [b for a, b in edges if a == i]
        if outs and (i + rot) % 3 == 2:
            has_out[i] = True
    ops, e_index = {}, 0
    for j in range(n):
        used = set()
        deps = []
        for (a, b) in [e for e in edges if e[1] == j]:
            kinds = OUT_KINDS if has_out[a] else JOB_KINDS
            if has_out[j]:
                # a JobOut has only `up` as a task-typed parameter
                kinds = [k for k in kinds if k in ("up", "pre", "init", "explicit", "pre-o")]
            k0 = (e_index + rot) % len(kinds)
            kind = None
            for t in range(len(kinds)):
                c = kinds[(k0 + t) % len(kinds)]
                if SLOT.get(c) in used:
                    continue
                kind = c
                break
            if kind is None:
                kind = "explicit"
            if SLOT.get(kind):
                used.add(SLOT[kind])
            deps.append((f"v{a}", kind))
            e_index += 1
        ops[j] = J(f"v{j}", j + 1, deps, code=1 if j in failing else 0, cls="jobout" if has_out[j] else "job",
                   tok=(tokens or {}).get(j, ()))
    return [ops[j] for j in order]


def sc(name, family, procs, **kw):
    return dict({"name": name, "family": family, "procs": procs}, **kw)


def dag_scenarios(nmax, rotations=(0,), with_failures=False, all_orders=True, min_n=1):
    out = []
    for n in range(min_n, nmax + 1):
        for ei, edges in enumerate(dag_edge_sets(n)):
            orders = list(topo_orders(n, edges))
            if not all_orders:
                orders = orders[:1]
            for oi, order in enumerate(orders):
                for rot in rotations:
                    fails = [()]
                    if with_failures:
                        fails = [f for r in range(1, n + 1) for f in itertools.combinations(range(n), r)]
                    for f in fails:
                        jobs = dag_jobs(n, edges, order, rot, f)
                        kinds = sorted({k for j in jobs for _, k in j["deps"]})
                        nm = f"dag{n}:e{ei}:o{oi}:r{rot}" + (f":f{''.join(map(str, f))}" if f else "")
                        out.append(sc(nm, f"dag{n}" + (":fail" if f else ""), [[XP("xp", jobs)]], edges=edges, kinds=kinds))
    return out


TOKEN_WORKLOADS = [(1, (1, 1)), (1, (1, 1, 1)), (2, (1, 1, 1)), (2, (2, 1)), (3, (2, 1)), (3, (2, 2)), (2, (1, 2, 1))]


def token_scenarios(kinds=("file",), workloads=None, with_dag=True, with_failure=True):
    out = []
    for kind in kinds:
        for cap, reqs in (workloads or TOKEN_WORKLOADS):
            body = [TOK("t", cap, kind=kind)] + [J(f"v{i}", i + 1, tok=[("t", r)]) for i, r in enumerate(reqs)]
            out.append(sc(f"tok:{kind}:{cap};{','.join(map(str, reqs))}", f"tok:{kind}", [[XP("xp", body)]]))
        if with_failure:
            body = [TOK("t", 1, kind=kind), J("v0", 1, tok=[("t", 1)], code=1), J("v1", 2, tok=[("t", 1)]), J("v2", 3, [("v0", "up")], tok=[("t", 1)])]
            out.append(sc(f"tok:{kind}:fail", f"tok:{kind}:fail", [[XP("xp", body)]]))
        if with_dag:
            # chain under a token, fork under a token, two tokens
            body = [TOK("t", 1, kind=kind), J("v0", 1, tok=[("t", 1)]), J("v1", 2, [("v0", "up")], tok=[("t", 1)]), J("v2", 3, tok=[("t", 1)])]
            out.append(sc(f"tok:{kind}:chain", f"tok:{kind}:dag", [[XP("xp", body)]]))
            body = [TOK("t", 2, kind=kind), J("v0", 1, tok=[("t", 1)]), J("v1", 2, [("v0", "ups")], tok=[("t", 2)]), J("v2", 3, [("v0", "holder")], tok=[("t", 1)])]
            out.append(sc(f"tok:{kind}:fork", f"tok:{kind}:dag", [[XP("xp", body)]]))
            body = [TOK("t", 1, kind=kind), TOK("u", 1, name="tok2", kind=kind), J("v0", 1, tok=[("t", 1), ("u", 1)]), J("v1", 2, tok=[("u", 1)]), J("v2", 3, tok=[("t", 1)])]
            out.append(sc(f"tok:{kind}:two-tokens", f"tok:{kind}:two", [[XP("xp", body)]]))
    return out


def history_scenarios():
    out = []
    # duplicates at every position of a 3-job plan
    base = [J("a", 1), J("b", 2, [("a", "up")]), J("c", 3)]
    for pos in range(1, 4):
        for which in range(pos):
            src = base[which]
            dup = dict(src, var=src["var"] + "2", dup_of=src["var"])
            body = base[:pos] + [dup] + base[pos:]
            out.append(sc(f"dup:{src['var']}@{pos}", "dup", [[XP("xp", body)]]))
    # duplicate after the first has been waited for
    out.append(sc("dup:after-wait", "dup", [[XP("xp", [J("a", 1), {"op": "wait", "var": "a"}, dict(J("a2", 1), dup_of="a"), J("b", 2, [("a2", "up")])])]]))
    # across two consecutive experiments: the marker exists, nothing may be launched again
    out.append(sc("again:second-experiment", "again", [[XP("xp", [J("a", 1), J("b", 2, [("a", "up")])]),
                                                         XP("xp", [J("a_", 1), J("b_", 2, [("a_", "up")]), J("c", 3, [("b_", "ups")])])]],
                  second_run=["a_", "b_"]))
    out.append(sc("again:other-experiment-name", "again", [[XP("xp1", [J("a", 1)]), XP("xp2", [J("a_", 1), J("b", 2, [("a_", "holder")])])]], second_run=["a_"]))
    # re-submission after failure (same identifier: `code` is a Meta parameter)
    out.append(sc("resubmit:fail-then-ok", "resubmit", [[XP("xp", [J("a", 1, code=1), {"op": "wait", "var": "a"}, dict(J("a2", 1, code=0), dup_of="a", after_fail=True)])]]))
    out.append(sc("resubmit:fail-then-fail", "resubmit", [[XP("xp", [J("a", 1, code=1), {"op": "wait", "var": "a"}, dict(J("a2", 1, code=1), dup_of="a", after_fail=True)])]]))
    out.append(sc("resubmit:with-dependent", "resubmit", [[XP("xp", [J("a", 1, code=1), {"op": "wait", "var": "a"}, dict(J("a2", 1, code=0), dup_of="a", after_fail=True),
                                                                     J("b", 2, [("a2", "up")])])]]))
    out.append(sc("resubmit:second-experiment", "resubmit", [[XP("xp", [J("a", 1, code=1)]), XP("xp", [J("a_", 1, code=0), J("b", 2, [("a_", "up")])])]]))
    # re-submission as soon as the state of the job says ERROR (the script polls job.state instead of calling job.wait()): the end of
    # the failed submission's own bookkeeping may still be ahead
    for code2 in (0, 1):
        out.append(sc(f"resubmit:on-error-state:{code2}", "resubmit", [[XP("xp", [J("a", 1, code=1), {"op": "await_state", "var": "a", "state": "ERROR"},
                                                                                  dict(J("a2", 1, code=code2), dup_of="a", after_fail=True), J("b", 2, [("a2", "up")]), J("c", 3)])]]))
        # ... and nothing depends on the re-submitted job: the experiment must still wait for it
        out.append(sc(f"resubmit:on-error-state:{code2}:alone", "resubmit", [[XP("xp", [J("a", 1, code=1), {"op": "await_state", "var": "a", "state": "ERROR"},
                                                                                        dict(J("a2", 1, code=code2), dup_of="a", after_fail=True), J("c", 3)])]]))
    # failed in an earlier experiment (the failure marker is on disk until the new process reaches its body), then submitted twice in a
    # row in the next one: the second submission is a duplicate of the first - also when the first one has to wait for a token
    for pre in ("none", "token"):
        first = [J("a", 1, code=1)]
        second = [TOK("t", 1), J("y", 8, tok=[("t", 1)])] if pre == "token" else []
        a2 = J("a_", 1, code=0, **({"tok": [("t", 1)]} if pre == "token" else {}))
        second += [a2, dict(a2, var="a_2", dup_of="a_"), J("b", 2, [("a_", "up")])]
        out.append(sc(f"resubmit:second-experiment-twice:{pre}", "resubmit", [[XP("xp", first), XP("xp", second)]]))
    return out


def wait_scenarios():
    """Explicit job.wait() / experiment.wait() calls in the middle of a plan."""
    W = lambda v: {"op": "wait", "var": v}
    out = []
    out.append(sc("wait:xp-mid", "wait", [[XP("xp", [J("a", 1), {"op": "waitxp"}, J("b", 2, [("a", "up")]), W("b")])]]))
    out.append(sc("wait:failed-dep", "wait:fail", [[XP("xp", [J("a", 1, code=1), J("b", 2, [("a", "ups")]), W("b"), {"op": "waitxp"}, J("c", 3)])]]))
    out.append(sc("wait:then-more", "wait:fail", [[XP("xp", [J("a", 1), W("a"), J("b", 2), J("c", 3, [("b", "holder")], code=1), W("c"), W("b")])]]))
    out.append(sc("wait:failed-then-dependent", "wait:fail", [[XP("xp", [J("a", 1, code=1), J("o", 4), W("a"), W("o"), J("b", 2, [("a", "up")]),
                                                                        J("c", 3, [("b", "ups"), ("o", "holder")]), J("d", 5, [("o", "up")])])]]))
    out.append(sc("wait:token", "wait", [[XP("xp", [TOK("t", 1), J("a", 1, tok=[("t", 1)]), J("b", 2, tok=[("t", 1)]), W("b"), W("a"), {"op": "waitxp"}])]]))
    return out


def nested_scenarios():
    """Two schedulers in one process (nested experiments, as the repository's take-back tests do)."""
    out = []
    out.append(sc("nested:same-job", "nested", [[XP("xp1", [J("a", 1), XP("xp2", [J("a_", 1), J("b", 2, [("a_", "up")])])])]], fine=True))
    out.append(sc("nested:same-job-token", "nested", [[XP("xp1", [TOK("t", 1), J("a", 1, tok=[("t", 1)]), XP("xp2", [J("a_", 1, tok=[("t", 1)])])])]], fine=True))
    # the inner experiment defines the token again (same name): same total, larger total, smaller total
    for c1, c2, r1, r2 in ((2, 2, 2, 1), (2, 3, 2, 2), (3, 2, 2, 2), (1, 2, 1, 1)):
        out.append(sc(f"nested:token-redefined:{c1}->{c2};{r1},{r2}", "nested:tok",
                      [[XP("xp1", [TOK("t", c1), J("a", 1, tok=[("t", r1)]), XP("xp2", [TOK("u", c2), J("b", 2, tok=[("u", r2)]), J("c", 3, tok=[("u", 1)])])])]], fine=True))
    return out


def twoproc_scenarios():
    """Two simulated scheduler processes on one workspace / token directory, fine-grained scheduling points."""
    out = []
    out.append(sc("2proc:same-job", "2proc:same", [[XP("xpA", [J("a", 1)])], [XP("xpB", [J("a", 1)])]], fine=True, markers_from_other_process=True))
    out.append(sc("2proc:same-chain", "2proc:same", [[XP("xpA", [J("a", 1), J("b", 2, [("a", "up")])])], [XP("xpB", [J("a", 1), J("b", 2, [("a", "up")])])]],
                  fine=True, markers_from_other_process=True))
    out.append(sc("2proc:token:1;1,1", "2proc:tok", [[XP("xpA", [TOK("t", 1), J("a", 1, tok=[("t", 1)])])], [XP("xpB", [TOK("t", 1), J("b", 2, tok=[("t", 1)])])]], fine=True))
    out.append(sc("2proc:token:2;2,1", "2proc:tok", [[XP("xpA", [TOK("t", 2), J("a", 1, tok=[("t", 2)])])], [XP("xpB", [TOK("t", 2), J("b", 2, tok=[("t", 1)])])]], fine=True))
    out.append(sc("2proc:token:1;1,1+1", "2proc:tok", [[XP("xpA", [TOK("t", 1), J("a", 1, tok=[("t", 1)])])],
                                                        [XP("xpB", [TOK("t", 1), J("b", 2, tok=[("t", 1)]), J("c", 3, tok=[("t", 1)])])]], fine=True))
    return out


def kill_scenarios():
    """First run (process 1) killed at a scheduling point, then the same script again in a fresh process."""
    out = []

    def mk(name, body):
        ops = [XP("xp", body)]
        import copy
        return sc(f"kill:{name}", f"kill:{name}", [ops], restart=copy.deepcopy(ops), fine=True, kill=True)
    out.append(mk("single", [J("a", 1)]))
    out.append(mk("chain2", [J("a", 1), J("b", 2, [("a", "up")])]))
    out.append(mk("fork", [J("a", 1), J("b", 2, [("a", "ups")]), J("c", 3, [("a", "holder")])]))
    out.append(mk("token1", [TOK("t", 1), J("a", 1, tok=[("t", 1)])]))
    out.append(mk("chain2+token", [TOK("t", 1), J("a", 1, tok=[("t", 1)]), J("b", 2, [("a", "up")], tok=[("t", 1)])]))
    out.append(mk("two+token", [TOK("t", 1), J("a", 1, tok=[("t", 1)]), J("b", 2, tok=[("t", 1)])]))
    return out


def kill_fail_scenarios():
    """Killed while a job that is going to FAIL runs: the restarted experiment takes the process back (no exit status
    is available for somebody else's process) and must still contain the failure."""
    out = []

    def mk(name, body):
        ops = [XP("xp", body)]
        import copy
        return sc(f"killfail:{name}", f"killfail:{name}", [ops], restart=copy.deepcopy(ops), fine=True, kill=True)
    out.append(mk("chain", [J("a", 1, code=1), J("b", 2, [("a", "up")]), J("c", 3)]))
    out.append(mk("fork+token", [TOK("t", 1), J("a", 1, code=2, tok=[("t", 1)]), J("b", 2, [("a", "holder")]), J("c", 3, tok=[("t", 1)])]))
    return out


def index_scenarios(nruns=3, jobs=(1, 2), endings=("ok", "raise"), wait_before_raise=(True,)):
    """All histories of `nruns` runs of one experiment name, each submitting a subset of the jobs and ending normally
    or by an exception in the block; the index is examined (and the real `orphans` command run) after every run."""
    subsets = [c for r in range(len(jobs) + 1) for c in itertools.combinations(jobs, r)]
    actions = [(s, e, w) for s in subsets for e in endings for w in (wait_before_raise if e == "raise" else (True,))]
    out = []
    for hi, hist in enumerate(itertools.product(actions, repeat=nruns)):
        ops, runs = [], []
        for ri, (sub, end, w) in enumerate(hist):
            body = [J(f"r{ri}v{x}", x) for x in sub]
            if end == "raise":
                body += ([{"op": "waitxp"}] if w else []) + [{"op": "raise"}]
            ops.append(XP("x", body, catch=True))
            ops.append({"op": "index", "name": "x"})
            runs.append({"jobs": list(sub), "end": end})
        name = "idx:" + "|".join(f"{''.join(map(str, s)) or '-'}{'!' if e == 'raise' else ''}{'' if w else '~'}" for s, e, w in hist)
        out.append(sc(name, "index", [ops], history={"p1": runs}))
    return out


def index_mode_scenarios(jobs=(1, 2)):
    """Histories of two NORMAL runs (each a subset of the jobs, ending normally or by an exception) followed by a run of the same
    experiment in DRY_RUN or GENERATE_ONLY mode that ends normally: such a run neither moves nor writes the index, and must leave what
    the earlier runs left (in particular the backup of an aborted run)."""
    subsets = [c for r in range(len(jobs) + 1) for c in itertools.combinations(jobs, r)]
    actions = [(s, e) for s in subsets for e in ("ok", "raise")]
    out = []
    for hist in itertools.product(actions, repeat=2):
        for mode in ("DRY_RUN", "GENERATE_ONLY"):
            for sub3 in ((), jobs[:1], jobs):
                ops, runs = [], []
                for ri, (sub, end) in enumerate(hist):
                    body = [J(f"r{ri}v{x}", x) for x in sub]
                    if end == "raise":
                        body += [{"op": "waitxp"}, {"op": "raise"}]
                    ops.append(XP("x", body, catch=True))
                    ops.append({"op": "index", "name": "x"})
                    runs.append({"jobs": list(sub), "end": end})
                ops.append(dict(XP("x", [J(f"r2v{x}", x) for x in sub3], catch=True), mode=mode))
                ops.append({"op": "index", "name": "x"})
                runs.append({"jobs": list(sub3), "end": "ok", "mode": mode})
                name = "idxmode:" + "|".join(f"{''.join(map(str, s)) or '-'}{'!' if e == 'raise' else ''}" for s, e in hist) + f"|{mode}:{''.join(map(str, sub3)) or '-'}"
                out.append(sc(name, "index:mode", [ops], history={"p1": runs}))
    return out


def index_kill_scenarios():
    """A completed run, then a run killed at every scheduling point, then the index is examined by a fresh process
    (which also runs the experiment again, normally)."""
    out = []
    for first, second in (((1, 2), (2, 3)), ((1,), (1, 2)), ((1, 2), ())):
        p1 = [XP("x", [J(f"a{x}", x) for x in first]), {"op": "index", "name": "x"},
              XP("x", [J(f"b{x}", x) for x in second]), {"op": "index", "name": "x"}]
        restart = [{"op": "index", "name": "x"}, XP("x", [J(f"c{x}", x) for x in second]), {"op": "index", "name": "x"}]
        out.append(sc(f"idxkill:{first}->{second}", "index:kill", [p1], restart=restart, fine=True, kill=True,
                      history={"p1": [{"jobs": list(first), "end": "ok"}, {"jobs": list(second), "end": "ok"}],
                               "restart": [{"jobs": list(second), "end": "kill"}, {"jobs": list(second), "end": "ok"}]},
                      first_plan=list(first)))
    return out


def index_blocked_scenarios():
    """Process 1 holds the experiment and submits jobs; process 2 tries to enter the same experiment and is killed at every
    point of its attempt; process 1 then ends normally: its index must be exactly its plan."""
    out = []
    for jobs in ((1,), (1, 2)):
        p1 = [XP("x", [J(f"a{x}", x) for x in jobs]), {"op": "index", "name": "x"}]
        p2 = [XP("x", [J("b9", 9)])]
        out.append(sc(f"idxblocked:{jobs}", "index:blocked", [p1, p2], fine=True, kill=True, kill_pid=2, only_if_other_killed_first=True,
                      history={"p1": [{"jobs": list(jobs), "end": "ok"}]}))
    return out


def index_twoproc_scenarios():
    out = [sc("idx:2proc-same-experiment", "index:2proc", [[XP("x", [J("a", 1)])], [XP("x", [J("b", 2)])]], fine=True)]
    # three holders: a process that waits for the experiment lock, gets it when the holder leaves, and is still inside when the first
    # process (or a third one) comes back - the waiter has had the lock *file* open since before the holder left
    out.append(sc("idx:2proc-reenter", "index:2proc", [[XP("x", [J("a", 1)]), XP("x", [J("c", 3)])], [XP("x", [J("b", 2)])]], fine=True))
    out.append(sc("idx:3proc-same-experiment", "index:2proc", [[XP("x", [J("a", 1)])], [XP("x", [J("b", 2)])], [XP("x", [J("c", 3)])]], fine=True))
    return out


def special_dep_scenarios(failing=False):
    """Dependencies that reach a job through a pre-task attached to a task-output configuration it takes as parameter."""
    out = []
    for order in (("a", "b"), ("b", "a")):
        for fb in ((0, 1) if failing else (0,)):
            jobs = {"a": J("a", 1, cls="jobout"), "b": J("b", 2, code=fb)}
            body = [jobs[o] for o in order] + [J("c", 3, [("a", "oin"), ("b", "pre-on-oin")])]
            out.append(sc(f"special:pre-on-output:{''.join(order)}:f{fb}", "special:pre-on-output" + (":fail" if fb else ""), [[XP("xp", body)]]))
    jobs = [J("a", 1, cls="jobout"), J("b", 2, cls="jobout"), J("c", 3, [("a", "oin"), ("b", "pre-o-on-oin")])]
    out.append(sc("special:pre-output-on-output", "special:pre-on-output", [[XP("xp", jobs)]]))
    # a configuration object shared by several submissions: used as a parameter before AND after a task marks a configuration below
    # it as its output (dep(self.leafp)): the later user depends on that task, the earlier one does not
    for fm in ((0, 1) if failing else (0,)):
        for early in (True, False):
            body = ([dict(J("e", 1), shared="cfg")] if early else []) + [J("m", 2, cls="jobmark", code=fm), J("c", 3, [("m", "cfg-shared")]), J("z", 4),
                                                                       J("d", 5, [("c", "up")])]
            out.append(sc(f"special:shared-marked:{'early' if early else 'late'}:f{fm}", "special:shared-marked" + (":fail" if fm else ""), [[XP("xp", body)]]))
    # a task that defines task_outputs, used as a task-typed value itself (not through its output), alone or next to its output
    for via in ("up-task", "ups-task", "holder-task", "holder2-task", "pre-task", "init-task"):
        for fa in ((0, 1) if failing else (0,)):
            deps = [("a", via)] + ([("a", "oin")] if via == "ups-task" else [])
            body = [J("a", 1, cls="jobx", code=fa), J("c", 3), J("b", 2, deps), J("d", 4, [("b", "up")])]
            out.append(sc(f"special:task-with-outputs:{via}:f{fa}", "special:task-with-outputs" + (":fail" if fa else ""), [[XP("xp", body)]]))
    return out


def jobkill_scenarios():
    """A job process dies abruptly (SIGKILL / OOM: no marker, no cleanup) at every scheduling point - while its own
    scheduler waits for it, and while a second scheduler process that found it through its pid file waits for it."""
    out = []
    chain = [J("a", 1), J("b", 2, [("a", "up")]), J("c", 3)]
    out.append(sc("jobkill:own", "jobkill:own", [[XP("xp", chain)]], fine=True, kill=True, kill_pid="job:j1", expect_job_failure=[1]))
    import copy
    out.append(sc("jobkill:adopted", "jobkill:adopted", [[XP("xpA", [J("a", 1)])], [XP("xpB", copy.deepcopy(chain))]], fine=True, kill=True,
                  kill_pid="job:j1", expect_job_failure=[1], markers_from_other_process=True))
    out.append(sc("jobkill:adopted+token", "jobkill:adopted", [[XP("xpA", [TOK("t", 1), J("a", 1, tok=[("t", 1)])])],
                                                                [XP("xpB", [TOK("t", 1), J("a", 1, tok=[("t", 1)]), J("b", 2, [("a", "ups")], tok=[("t", 1)])])]],
                  fine=True, kill=True, kill_pid="job:j1", expect_job_failure=[1], markers_from_other_process=True))
    return out


def thread_scenarios():
    """Two user threads of one process submit identical configurations to the same experiment at the same time."""
    out = []
    body = [{"op": "thread", "var": "t", "body": [J("a2", 1)]}, J("a", 1), {"op": "join", "var": "t"}, {"op": "same", "a": "a", "b": "a2"}, J("b", 2, [("a", "up")])]
    out.append(sc("threads:same-job", "threads", [[XP("xp", body)]], dup_threads=True))
    body = [J("u", 5), {"op": "thread", "var": "t", "body": [J("a2", 1, [("u", "up")])]}, J("a", 1, [("u", "up")]), {"op": "join", "var": "t"}, {"op": "same", "a": "a", "b": "a2"}]
    out.append(sc("threads:same-dependent", "threads", [[XP("xp", body)]], dup_threads=True))
    return out


def latejoin_scenarios(failing=False):
    """A job with two or three dependencies that is submitted when some of them have already finished and the others are
    still running or waiting (explicit job.wait() between the submissions), in both listing orders of the dependencies and
    with every pair of embedding kinds; with `failing`, the still-running dependency fails."""
    W = lambda v: {"op": "wait", "var": v}
    out = []
    kind_pairs = [("up", "ups"), ("ups", "upd"), ("holder", "up"), ("pre", "ups"), ("init", "up"), ("explicit", "ups"), ("upd", "explicit"), ("mt", "ups")]
    for ka, kb in kind_pairs:
        for swap in (False, True):
            deps = [("a", ka), ("b", kb)]
            if swap:
                deps.reverse()
            for fb in ((0, 1) if failing else (0,)):
                # a is over when c is submitted; b has just been submitted
                body = [J("a", 1), W("a"), J("b", 2, code=fb), J("c", 3, deps)]
                out.append(sc(f"latejoin:{ka}+{kb}:{'ba' if swap else 'ab'}:f{fb}", "latejoin" + (":fail" if fb else ""), [[XP("xp", body)]]))
                # b submitted first and still running, a over
                body = [J("b", 2, code=fb), J("a", 1), W("a"), J("c", 3, deps)]
                out.append(sc(f"latejoin:{ka}+{kb}:{'ba' if swap else 'ab'}:b-first:f{fb}", "latejoin" + (":fail" if fb else ""), [[XP("xp", body)]]))
    # three dependencies, two of them over
    for perm in itertools.permutations([("a", "up"), ("b", "ups"), ("d", "holder")]):
        body = [J("a", 1), J("d", 4), W("a"), W("d"), J("b", 2), J("c", 3, list(perm))]
        out.append(sc("latejoin3:" + "".join(v for v, _ in perm), "latejoin", [[XP("xp", body)]]))
    # a chain behind the late joiner, and a token on it
    body = [TOK("t", 1), J("a", 1), W("a"), J("b", 2, tok=[("t", 1)]), J("c", 3, [("a", "up"), ("b", "ups")], tok=[("t", 1)]), J("e", 5, [("c", "up")])]
    out.append(sc("latejoin:token+chain", "latejoin", [[XP("xp", body)]]))
    return out


#: eager notifications: observers (then helper threads) run as soon as they can
POL_EAGER = ("P:observer,thread,loop,job,main", "P:observer,thread,job,loop,main")

POL_ORDER = ("FIFO", "FIFO+rev", "JOBS", "JOBS+rev", "LIFO", "LIFO+rev")


def carry_scenarios():
    """Two consecutive experiments of one process; the second one takes as parameter the task object submitted in the first
    (which failed, or succeeded there) without submitting it again."""
    out = []
    for kind in ("up", "ups", "holder", "pre", "explicit"):
        for code in (1, 0):
            for second_name in ("xp2", "xp1"):
                ops = [XP("xp1", [J("a", 1, code=code), J("o", 4)]),
                       XP(second_name, [J("b", 2, [("a", kind)]), J("c", 3), J("d", 5, [("b", "ups"), ("o", "up")])])]
                out.append(sc(f"carry:{kind}:code{code}:{second_name}", "carry" + (":fail" if code else ""), [ops]))
    return out


def reparam_scenarios():
    """The same job (same identifier) submitted again with another value of a Meta parameter after its first process failed or
    was left without a success marker: the process launched for the second submission must read the second values."""
    W = lambda v: {"op": "wait", "var": v}
    out = []
    out.append(sc("reparam:same-experiment", "reparam", [[XP("xp", [J("a", 1, code=1), W("a"), dict(J("a2", 1, code=0), dup_of="a", after_fail=True)])]], expect_exits={1: [1, 0]}))
    out.append(sc("reparam:same-experiment:3", "reparam", [[XP("xp", [J("a", 1, code=2), W("a"), dict(J("a2", 1, code=3), dup_of="a", after_fail=True), W("a2"),
                                                                     dict(J("a3", 1, code=0), dup_of="a", after_fail=True), J("b", 2, [("a3", "up")])])]],
                  expect_exits={1: [2, 3, 0], 2: [0]}))
    out.append(sc("reparam:second-experiment", "reparam", [[XP("xp", [J("a", 1, code=1)]), XP("xp", [J("a_", 1, code=0), J("b", 2, [("a_", "up")])])]],
                  expect_exits={1: [1, 0], 2: [0]}))
    out.append(sc("reparam:other-experiment", "reparam", [[XP("xp1", [J("a", 1, code=4)]), XP("xp2", [J("a_", 1, code=5)]), XP("xp1", [J("a__", 1, code=0)])]],
                  expect_exits={1: [4, 5, 0]}))
    return out


def jobkill_relaunch_scenarios():
    """A job process dies abruptly (SIGKILL / OOM: its pid file stays behind); its scheduler submits the job again in a following
    experiment, under a token shared with a second process that has jobs of its own on that token: during the new start the pid
    file on disk is the stale one."""
    out = []
    for njobs2 in (1, 2):
        p1 = [XP("xpA", [TOK("t", 1), J("a", 1, tok=[("t", 1)])]), XP("xpA", [TOK("t", 1), J("a_", 1, tok=[("t", 1)])])]
        p2 = [XP("xpB", [TOK("t", 1)] + [J("bcd"[i], 2 + i, tok=[("t", 1)]) for i in range(njobs2)])]
        out.append(sc(f"jobkill:relaunch+token:{njobs2}", "jobkill:relaunch", [p1, p2], fine=True, kill=True, kill_pid="job:j1", expect_job_failure=[1]))
    return out


def token_relaunch_scenarios():
    """A job under a token fails and is submitted again by a following experiment of its process (its token file has the same name
    at every launch) while a second process sharing the token directory has jobs of its own on that token."""
    out = []
    for njobs2 in (1, 2):
        p1 = [XP("xpA", [TOK("t", 1), J("a", 1, code=1, tok=[("t", 1)])]), XP("xpA", [TOK("t", 1), J("a_", 1, code=0, tok=[("t", 1)])])]
        p2 = [XP("xpB", [TOK("t", 1)] + [J("bcd"[i], 2 + i, tok=[("t", 1)]) for i in range(njobs2)])]
        out.append(sc(f"2proc:tok-relaunch:{njobs2}", "2proc:tok:relaunch", [p1, p2], fine=True))
    return out


def token_and_dependency_scenarios():
    """A job that waits for a token AND for an upstream job that fails (or not) while the token is busy / is given back; other jobs,
    older or younger, wait for the same token and do not depend on anything."""
    out = []
    for fcode in (1, 0):
        for order in ("consumer-first", "other-first"):
            for cap, hold_n in ((1, 1), (2, 2)):
                cons = J("c", 3, [("f", "up")], tok=[("t", 1)])
                other = J("o", 4, tok=[("t", 1)])
                tail = [cons, other] if order == "consumer-first" else [other, cons]
                body = [TOK("t", cap), J("h", 1, tok=[("t", hold_n)]), J("f", 2, code=fcode)] + tail + [J("z", 5, tok=[("t", cap)])]
                out.append(sc(f"tok+dep:{'fail' if fcode else 'ok'}:{order}:{cap}", "tok+dep" + (":fail" if fcode else ""), [[XP("xp", body)]]))
    # the failing upstream itself holds the token
    body = [TOK("t", 1), J("f", 2, code=1, tok=[("t", 1)]), J("c", 3, [("f", "ups")], tok=[("t", 1)]), J("o", 4, tok=[("t", 1)])]
    out.append(sc("tok+dep:fail:upstream-holds", "tok+dep:fail", [[XP("xp", body)]]))
    return out


def token_redefined_scenarios():
    """A second process defines the token again with a larger capacity (token.info is rewritten: truncated, then written) while a job of
    the first process waits for more than the old capacity: it fits now and must be launched.  With real modification times and on a
    coarse clock (both writes within one tick of the file system's time stamps)."""
    out = []
    for coarse in (False, True):
        for cap2, req in ((2, 2), (3, 2)):
            p1 = [XP("xpA", [TOK("t", 1), J("a", 1, tok=[("t", req)]), J("c", 3, tok=[("t", 1)])])]
            p2 = [XP("xpB", [TOK("t", cap2), J("b", 2, tok=[("t", 1)])])]
            out.append(sc(f"2proc:tok-redefined:{cap2};{req}:{'coarse' if coarse else 'fine'}", "2proc:tok:redefined", [p1, p2], fine=True, coarse_mtime=coarse, may_starve={"a": req}))
    return out


def first_handle_scenarios():
    """A task fails, is submitted again, and a dependent built from the FIRST handle is submitted while the re-submission is
    waiting / running / over.  Whether that dependent is cancelled or runs is not decided by the statements ("ambiguous");
    it must reach a final state and the experiment must exit."""
    W = lambda v: {"op": "wait", "var": v}
    out = []
    for kind in ("up", "ups", "holder"):
        body = [J("a", 1, code=1), W("a"), dict(J("a2", 1, code=0), dup_of="a", after_fail=True), J("b", 2, [("a", kind)]), J("c", 3)]
        out.append(sc(f"firsthandle:{kind}:running", "firsthandle", [[XP("xp", body)]], ambiguous=[2]))
        body = [J("a", 1, code=1), W("a"), dict(J("a2", 1, code=0), dup_of="a", after_fail=True), W("a2"), J("b", 2, [("a", kind)]), J("c", 3, [("b", "ups")])]
        out.append(sc(f"firsthandle:{kind}:over", "firsthandle", [[XP("xp", body)]], ambiguous=[2, 3]))
        body = [J("a", 1, code=1), W("a"), dict(J("a2", 1, code=1), dup_of="a", after_fail=True), J("b", 2, [("a", kind)]), J("c", 3)]
        out.append(sc(f"firsthandle:{kind}:fails-again", "firsthandle", [[XP("xp", body)]], ambiguous=[2]))
    return out


def token_again_scenarios():
    """The same named token used by consecutive experiments of one process (the token object is shared through the per-process
    registry and keeps the dependencies of the finished experiment)."""
    out = []
    for n2 in ("xp", "xp2"):
        out.append(sc(f"tokagain:{n2}:1;1|1,1", "tokagain", [[XP("xp", [TOK("t", 1), J("a", 1, tok=[("t", 1)])]),
                                                               XP(n2, [TOK("u", 1), J("b", 2, tok=[("u", 1)]), J("c", 3, tok=[("u", 1)])])]]))
        out.append(sc(f"tokagain:{n2}:2;2,1|1,2", "tokagain", [[XP("xp", [TOK("t", 2), J("a", 1, tok=[("t", 2)]), J("d", 4, tok=[("t", 1)])]),
                                                                 XP(n2, [TOK("u", 2), J("b", 2, tok=[("u", 1)]), J("c", 3, tok=[("u", 2)])])]]))
        out.append(sc(f"tokagain:{n2}:fail", "tokagain:fail", [[XP("xp", [TOK("t", 1), J("a", 1, code=1, tok=[("t", 1)]), J("d", 4, tok=[("t", 1)])]),
                                                                XP(n2, [TOK("u", 1), J("b", 2, tok=[("u", 1)]), J("c", 3, [("b", "up")], tok=[("u", 1)])])]]))
    out.append(sc("tokagain:three", "tokagain", [[XP("xp", [TOK("t", 1), J("a", 1, tok=[("t", 1)])]), XP("xp", [TOK("u", 1), J("b", 2, tok=[("u", 1)])]),
                                                   XP("xp", [TOK("v", 1), J("c", 3, tok=[("v", 1)]), J("d", 4, tok=[("v", 1)])])]]))
    return out


def rerun_scenarios():
    """A chain succeeded in a first experiment; the directory of its first job is removed and the plan is run again with that job
    failing this time (the failure is known before its dependents are submitted, or not): jobs that had already succeeded in the
    earlier run are done, whatever happens to their upstream; their own dependents still run."""
    W = lambda v: {"op": "wait", "var": v}
    out = []
    for kind in ("up", "ups", "holder"):
        for wait in (True, False):
            first = [J("a", 1), J("b", 2, [("a", kind)])]
            second = [J("a_", 1, code=1)] + ([W("a_")] if wait else []) + [J("b_", 2, [("a_", kind)]), J("c", 3, [("b_", "ups")]), J("d", 4)]
            out.append(sc(f"rerun:{kind}:{'known' if wait else 'racing'}", "rerun:fail", [[XP("xp", first), {"op": "rmjob", "var": "a"}, XP("xp", second)]],
                          ambiguous=[3]))
    return out
