"""Bounded-exhaustive enumeration of configuration-graph descriptions (Engine G).

A description is reached from the all-default graph of a root class by at most `k` *deviations*, using at
most `N` nodes.  One deviation is one of
  * a scalar / container parameter of one node set to a non-default value of its alphabet,
  * an optional configuration parameter filled with a new default node or with a reference to an existing node
    (which creates sharing and, for ancestors, cycles), an element appended to a list / a key added to a dict
    of configurations, likewise,
  * the class of a node replaced by a sub-class with a prefix-related type identifier,
  * a node flagged meta=True or meta=False,
  * a pre-task attached to a node (new or shared), an init task appended to the root task,
  * a task-output (new producing task) put in a parameter.
Breadth-first, de-duplicated on a canonical relabelling; within (N, k) the enumeration is complete.
"""
from __future__ import annotations

import copy
import json

from .refmodel import SCHEMA, is_dictv, is_ref, isa, refs_in


def D(**k):
    return {"dict": dict(k)}


ALPHA = {
    "int": [0, 1, 2],
    "float": [0.5, 1.5, 2],
    "str": ["d", "x", "xy", "y"],
    "bool": [False, True],
    "enum": [{"enum": "RED"}, {"enum": "RE"}, {"enum": "GREEN"}],
    "opt:int": [None, 0, 3],
    "optd:int": [3, None, 0],
    "path": [{"path": "/x"}, {"path": "/y"}],
    "list:int": [[], [1], [1, 2], [2, 1], [0]],
    "list:str": [[], ["x", "y"], ["xy"], ["x"], ["y", "x"], ["", "xy"], ["xy", ""]],
    "list:list:int": [[], [[1], [2]], [[1, 2]], [[], [1, 2]], [[1, 2], []], [[1], [], [2]], [[]], [[], []]],
    "dict:int": [D(), D(a=1), D(b=1), D(a=1, b=2), D(a=2, b=1), D(ab=1)],
    "dict:dict:int": [D(), D(a=D()), D(a=D(x=1)), D(a=D(x=1), b=D()), D(a=D(), b=D(x=1)), D(a=D(x=1, b=2)),
                      D(a=D(x=1), b=D(y=2)), D(a=D(x=1, y=2)), D(ab=D())],
    "dict:list:int": [D(), D(a=[]), D(a=[1]), D(a=[1], b=[]), D(a=[], b=[1]), D(a=[1, 2]), D(a=[1], b=[2])],
    "list:dict:int": [[], [D()], [D(a=1)], [D(a=1), D()], [D(), D(a=1)], [D(a=1, b=2)], [D(a=1), D(b=2)], [D(), D()]],
}

#: alternatives for the class of a node (sub-classes usable in the same positions)
CLASS_ALTS = {"leaf": ["leafx"], "job": ["jobx"]}
MAX_LIST = 2
#: shapes of nested containers of configurations: groups of node tags (equal tags = the same node shared)
NEST_SHAPES = [[["a"]], [["a"], ["b"]], [["a", "b"]], [["a"], []], [["a"], ["a"]], [["a", "b"], ["c"]]]
DICT_KEYS = ["a", "b"]


def new_node(cls):
    n = {"cls": cls, "args": {}, "meta": None, "pre": [], "init": []}
    return n


def fresh(G):
    G["_n"] = G.get("_n", 0) + 1
    return f"n{G['_n']}"


def add_default_node(G, cls):
    """Adds a node of class cls with its required configuration parameters filled by default nodes."""
    l = fresh(G)
    G["nodes"][l] = new_node(cls)
    for f in SCHEMA[cls]["fields"]:
        if f["required"] and not f["generated"]:
            if f["kind"].startswith("cfg:"):
                c = add_default_node(G, f["kind"][4:])
                G["nodes"][l]["args"][f["name"]] = {"ref": c}
            else:
                G["nodes"][l]["args"][f["name"]] = ALPHA[f["kind"]][0]
    return l


def initial(cls):
    G = {"root": None, "nodes": {}}
    G["root"] = add_default_node(G, cls)
    return G


def nnodes(G):
    return len(G["nodes"])


def ancestors_ok(G):
    return True


def canon(G):
    """Canonical relabelling by DFS from the root (arguments in name order, then pre, init, output_of)."""
    order, seen = [], {}

    def visit(l):
        if l in seen:
            return
        seen[l] = f"c{len(seen)}"
        n = G["nodes"][l]
        if "output_of" in n:
            visit(n["output_of"])
        else:
            for a in sorted(n["args"]):
                for r in refs_in(n["args"][a]):
                    visit(r)
        for p in n.get("pre", []):
            visit(p)
        for p in n.get("init", []):
            visit(p)

    visit(G["root"])

    def rv(v):
        if is_ref(v):
            return {"ref": seen[v["ref"]]}
        if isinstance(v, list):
            return [rv(x) for x in v]
        if is_dictv(v):
            return {"dict": {k: rv(x) for k, x in v["dict"].items()}}
        return v

    nodes = {}
    for l, c in seen.items():
        n = G["nodes"][l]
        if "output_of" in n:
            nodes[c] = {"output_of": seen[n["output_of"]]}
            if n.get("pre"):
                nodes[c]["pre"] = [seen[p] for p in n["pre"]]
        else:
            nodes[c] = {"cls": n["cls"], "args": {a: rv(v) for a, v in sorted(n["args"].items())}, "meta": n.get("meta"),
                        "pre": [seen[p] for p in n.get("pre", [])], "init": [seen[p] for p in n.get("init", [])]}
            if n.get("tags"):
                nodes[c]["tags"] = n["tags"]
    return {"root": "c0", "nodes": nodes}


def key(G):
    return json.dumps(canon(G), sort_keys=True)


def node_cls(G, l):
    n = G["nodes"][l]
    if "output_of" in n:
        return "out"
    return n["cls"]


def is_task(G, l):
    n = G["nodes"][l]
    return "output_of" not in n and bool(SCHEMA[n["cls"]].get("task"))


def compatible(G, target_cls):
    return [l for l in G["nodes"] if isa(node_cls(G, l), target_cls)]


def creates_task_cycle(G):
    """A graph is outside the domain when a task node lies on a cycle (a task must be submitted before it can be
    used as a value, so such a graph cannot be built) or a cycle is reachable from an embedded (hence submitted)
    task: submitting such graphs ends in RecursionError (DESIGN.md section 6)."""
    from .graphs import order_nodes
    _, back = order_nodes(G, G["root"])
    if not back:
        return False
    for l in G["nodes"]:
        if is_task(G, l) and l != G["root"]:
            return True
    root = G["root"]
    if is_task(G, root):
        # the root task itself must not be on a cycle
        n = G["nodes"][root]
        succ = [r for a in n["args"].values() for r in refs_in(a)] + n.get("pre", []) + n.get("init", [])
        from .refmodel import reachable
        for s in succ:
            if root in reachable(G, s):
                return True
    return False


def successors(G, N, allow):
    """All graphs one deviation away. `allow` is a set of operation families."""
    out = []

    def clone():
        return copy.deepcopy(G)

    room = N - nnodes(G)
    for l in list(G["nodes"]):
        n = G["nodes"][l]
        if "output_of" in n:
            # a task output is a configuration like any other: pre-tasks can be attached to it
            if "pre" in allow and "struct" in allow and len(n.get("pre", [])) < 1:
                used_as_init = {p for m in G["nodes"].values() for p in m.get("init", [])}
                choices = (["new"] if room >= 1 else []) + [("ref", r) for r in G["nodes"] if node_cls(G, r) == "pre" and r not in used_as_init]
                for c in choices:
                    H = clone()
                    r = add_default_node(H, "pre") if c == "new" else c[1]
                    H["nodes"][l]["pre"] = [r]
                    if not creates_task_cycle(H):
                        out.append(H)
            continue
        cls = n["cls"]
        for f in SCHEMA[cls]["fields"]:
            if f["generated"] or f["constant"]:
                continue
            kind, name = f["kind"], f["name"]
            cur = n["args"].get(name)
            # ---- scalar / container alphabets
            if kind in ALPHA:
                if "scalar" not in allow or name in n.get("_dev", []):
                    continue
                base = cur if name in n["args"] else f["default"]
                for alt in ALPHA[kind]:
                    if alt == base and type(alt) is type(base):
                        continue
                    if name not in n["args"] and f["default"] is not None and alt == f["default"] and type(alt) is type(f["default"]):
                        continue
                    H = clone()
                    H["nodes"][l]["args"][name] = alt
                    H["nodes"][l].setdefault("_dev", []).append(name)
                    out.append(H)
                continue
            if "struct" not in allow:
                continue
            if kind.startswith("nest:"):
                # nested containers of configurations: a few shapes filled with fresh default nodes (S = the same node twice)
                if cur not in (None, [], {"dict": {}}) or name in n["args"]:
                    continue
                _, outer, inner, base = kind.split(":")
                for shape in NEST_SHAPES:
                    need = len({x for grp in shape for x in grp})
                    if need > room:
                        continue
                    H = clone()
                    made = {}

                    def node(tag, H=H, made=made, base=base):
                        if tag not in made:
                            made[tag] = add_default_node(H, base)
                        return {"ref": made[tag]}
                    groups = [[node(t) for t in grp] for grp in shape]
                    if inner == "list":
                        inners = groups
                    else:
                        inners = [{"dict": {DICT_KEYS[i]: v for i, v in enumerate(grp)}} for grp in groups]
                    if outer == "list":
                        val = inners
                    else:
                        val = {"dict": {DICT_KEYS[i]: v for i, v in enumerate(inners)}}
                    H["nodes"][l]["args"][name] = val
                    out.append(H)
                continue
            # ---- configuration-valued parameters
            base = kind.split("cfg:")[1]
            if kind.startswith(("cfg:", "opt:cfg:")):
                if cur is None and not f["required"]:
                    choices = []
                    if base == "out":
                        if room >= 2:
                            choices.append("newout")
                    elif room >= 1:
                        choices.append("new")
                    for r in compatible(G, base):
                        choices.append(("ref", r))
                    for c in choices:
                        H = clone()
                        if c == "new":
                            r = add_default_node(H, base)
                        elif c == "newout":
                            t = add_default_node(H, "jobout")
                            r = fresh(H)
                            H["nodes"][r] = {"output_of": t}
                        else:
                            r = c[1]
                        H["nodes"][l]["args"][name] = {"ref": r}
                        if len(H["nodes"]) <= N and not creates_task_cycle(H):
                            out.append(H)
            elif kind.startswith("list:cfg:"):
                cur = cur or []
                if len(cur) < MAX_LIST:
                    choices = (["new"] if room >= 1 else []) + [("ref", r) for r in compatible(G, base)]
                    for c in choices:
                        for front in ((False, True) if cur else (False,)):
                            H = clone()
                            r = add_default_node(H, base) if c == "new" else c[1]
                            H["nodes"][l]["args"][name] = ([{"ref": r}] + list(cur)) if front else (list(cur) + [{"ref": r}])
                            if len(H["nodes"]) <= N and not creates_task_cycle(H):
                                out.append(H)
            elif kind.startswith("dict:cfg:"):
                curd = (cur or {"dict": {}})["dict"]
                for k in DICT_KEYS:
                    if k in curd:
                        continue
                    choices = (["new"] if room >= 1 else []) + [("ref", r) for r in compatible(G, base)]
                    for c in choices:
                        H = clone()
                        r = add_default_node(H, base) if c == "new" else c[1]
                        d = dict(curd)
                        d[k] = {"ref": r}
                        H["nodes"][l]["args"][name] = {"dict": d}
                        if len(H["nodes"]) <= N and not creates_task_cycle(H):
                            out.append(H)
        if "struct" not in allow:
            continue
        # ---- class alternative
        for alt in CLASS_ALTS.get(cls, []):
            H = clone()
            H["nodes"][l]["cls"] = alt
            out.append(H)
        # ---- meta flag (not on the root: the root's own flag does not enter its identifier)
        if l != G["root"] and n.get("meta") is None and not SCHEMA[cls].get("task") and not SCHEMA[cls].get("light"):
            for m in (True, False):
                H = clone()
                H["nodes"][l]["meta"] = m
                out.append(H)
        # ---- pre-tasks
        if "pre" in allow and not SCHEMA[cls].get("light") and len(n.get("pre", [])) < 2:
            used_as_init = {p for m in G["nodes"].values() for p in m.get("init", [])}
            choices = (["new", "new-init-class"] if room >= 1 else []) + [("ref", r) for r in G["nodes"] if node_cls(G, r) == "pre" and r not in n["pre"] and r not in used_as_init]
            for c in choices:
                H = clone()
                # (any lightweight task can be a pre-task: also one of the class otherwise used as init task)
                r = add_default_node(H, "pre") if c == "new" else (add_default_node(H, "init") if c == "new-init-class" else c[1])
                H["nodes"][l]["pre"] = list(n["pre"]) + [r]
                if not creates_task_cycle(H):
                    out.append(H)
        # ---- init tasks (root task only)
        if "pre" in allow and l == G["root"] and SCHEMA[cls].get("task") and len(n.get("init", [])) < 2:
            used_as_pre = {p for m in G["nodes"].values() for p in m.get("pre", [])}
            choices = (["new", "new-pre-class"] if room >= 1 else []) + [("ref", r) for r in G["nodes"] if node_cls(G, r) == "init" and r not in n["init"] and r not in used_as_pre]
            for c in choices:
                for front in ((False, True) if n["init"] else (False,)):
                    H = clone()
                    r = add_default_node(H, "init") if c == "new" else (add_default_node(H, "pre") if c == "new-pre-class" else c[1])
                    H["nodes"][l]["init"] = ([r] + list(n["init"])) if front else (list(n["init"]) + [r])
                    out.append(H)
    return out


def strip(G):
    H = canon(G)
    return H


def enumerate_space(roots, N, k, allow=("scalar", "struct", "pre"), cap=None):
    """BFS to depth k.  Returns the list of canonical descriptions (de-duplicated) and the depth histogram."""
    seen = {}
    hist = {}
    frontier = []
    for r in roots:
        G = initial(r)
        kk = key(G)
        if kk not in seen:
            seen[kk] = canon(G)
            frontier.append(G)
    hist[0] = len(frontier)
    for depth in range(1, k + 1):
        nxt = []
        for G in frontier:
            for H in successors(G, N, set(allow)):
                kk = key(H)
                if kk in seen:
                    continue
                seen[kk] = canon(H)
                nxt.append(H)
                if cap and len(seen) >= cap:
                    hist[depth] = len(nxt)
                    return list(seen.values()), hist, True
        hist[depth] = len(nxt)
        frontier = nxt
    return list(seen.values()), hist, False


# ---------------------------------------------------------------------------------------------- seeds
def _N(cls, meta=None, pre=(), init=(), **args):
    return {"cls": cls, "args": args, "meta": meta, "pre": list(pre), "init": list(init)}


def _ref(l):
    return {"ref": l}


def seeds():
    """Hand-made centres (cost 0) from which deviations are counted, besides the all-default graph of each
    root class: cycles of length 1-3, sharing, meta elements in containers, tasks with upstream tasks, task
    outputs, pre-tasks and init tasks."""
    S = {}
    S["ring1"] = {"root": "a", "nodes": {"a": _N("ring", v=1, nxt=_ref("a"))}}
    S["ring2"] = {"root": "a", "nodes": {"a": _N("ring", v=1, nxt=_ref("b")), "b": _N("ring", v=2, nxt=_ref("a"))}}
    S["ring3"] = {"root": "a", "nodes": {"a": _N("ring", v=1, nxt=_ref("b")), "b": _N("ring", v=2, nxt=_ref("c")),
                                         "c": _N("ring", v=3, nxt=_ref("a"))}}
    S["ring3mid"] = {"root": "b", "nodes": S["ring3"]["nodes"]}
    S["ring-below"] = {"root": "r", "nodes": {"r": _N("ring", v=0, nxt=_ref("a")), "a": _N("ring", v=1, nxt=_ref("b")),
                                              "b": _N("ring", v=2, nxt=_ref("a"), alt=_ref("b"))}}
    S["ring-diamond"] = {"root": "r", "nodes": {"r": _N("ring", v=0, nxt=_ref("a"), alt=_ref("b")), "a": _N("ring", v=1, nxt=_ref("c")),
                                                "b": _N("ring", v=2, nxt=_ref("c")), "c": _N("ring", v=3)}}
    S["box-meta"] = {"root": "b", "nodes": {"b": _N("box", child=_ref("l0"), lst=[_ref("l1"), _ref("l2")], dct=D(a=_ref("l1"))),
                                            "l0": _N("leaf", i=0), "l1": _N("leaf", i=1, meta=True), "l2": _N("leaf", i=2)}}
    S["box-shared"] = {"root": "b", "nodes": {"b": _N("box", child=_ref("l0"), ochild=_ref("l0"), mchild=_ref("l1"), lst=[_ref("l0")]),
                                              "l0": _N("leaf", i=0), "l1": _N("leaf", i=1, meta=False)}}
    S["job-up"] = {"root": "j", "nodes": {"j": _N("job", x=1, up=_ref("u"), oin=_ref("o"), pre=["p"], init=["i"]),
                                          "u": _N("job", x=2), "o": {"output_of": "t"}, "t": _N("jobout", x=3),
                                          "p": _N("pre", k=1), "i": _N("init", k=1)}}
    S["job-holder"] = {"root": "j", "nodes": {"j": _N("job", h=_ref("h"), ups=[_ref("u")]), "h": _N("holder", t=_ref("u"), inner=_ref("h2")),
                                              "h2": _N("holder", o=_ref("o")), "u": _N("job", x=2, pre=["p"]),
                                              "o": {"output_of": "t"}, "t": _N("jobout", x=3, up=_ref("u")), "p": _N("pre", k=2)}}
    S["job-outpre"] = {"root": "j", "nodes": {"j": _N("job", oin=_ref("o")), "o": {"output_of": "t", "pre": ["p"]}, "t": _N("jobout", x=3),
                                              "p": _N("pre", k=1, h=_ref("h")), "h": _N("holder", t=_ref("u")), "u": _N("job", x=2)}}
    S["job-upx"] = {"root": "j", "nodes": {"j": _N("job", x=1, up=_ref("t"), oin=_ref("o"), h=_ref("h")), "h": _N("holder", lt=[_ref("t2")]),
                                           "t": _N("jobx", x=3), "t2": _N("jobx", x=4), "o": {"output_of": "t"}}}
    S["job-ring"] = {"root": "j", "nodes": {"j": _N("job", ring=_ref("a")), "a": _N("ring", v=1, nxt=_ref("b")), "b": _N("ring", v=2, nxt=_ref("a"))}}
    return S


def enumerate_with_seeds(roots, seed_names, N, k, Nseed=None, kseed=None, allow=("scalar", "struct", "pre"), cap=None):
    """BFS from the all-default graphs of `roots` (bounds N, k) and from the named seeds (bounds Nseed, kseed)."""
    seen = {}
    hist = {}
    capped = False

    def bfs(starts, N, k, tag):
        nonlocal capped
        frontier = []
        for G in starts:
            kk = key(G)
            if kk not in seen:
                seen[kk] = canon(G)
                frontier.append(G)
        hist[f"{tag}:0"] = len(frontier)
        for depth in range(1, k + 1):
            nxt = []
            for G in frontier:
                for H in successors(G, N, set(allow)):
                    kk = key(H)
                    if kk in seen:
                        continue
                    seen[kk] = canon(H)
                    nxt.append(H)
                    if cap and len(seen) >= cap:
                        capped = True
                        hist[f"{tag}:{depth}"] = len(nxt)
                        return
            hist[f"{tag}:{depth}"] = len(nxt)
            frontier = nxt

    bfs([initial(r) for r in roots], N, k, "default")
    allseeds = seeds()
    for name in seed_names:
        G = copy.deepcopy(allseeds[name])
        G["_n"] = 100
        bfs([G], max(Nseed or N, nnodes(G) + 1), kseed if kseed is not None else k, name)
    return list(seen.values()), hist, capped
