"""C05 — a task configuration is executed at most once per successful result (Engine W)."""
from . import wcat
from .wcheck import replay, run_w  # noqa

PROPERTY = "C05"
LEVEL = "model_checking"


def run(ctx):
    q = ctx.quick
    plan = [
        {"scens": wcat.history_scenarios(), "policies": ("FIFO", "LIFO", "JOBS"), "bound": 1 if q else 2, "demote": True, "cap": 40000},
        {"scens": wcat.nested_scenarios()[:2], "policies": ("FIFO",), "bound": 1 if q else 2, "demote": True, "cap": 40000},
        {"scens": wcat.thread_scenarios(), "policies": ("FIFO", "LIFO", "JOBS", "P:thread,main,loop,job"), "bound": 1 if q else 2, "demote": True, "cap": 40000},
        {"scens": [s for s in wcat.twoproc_scenarios() if s["family"] == "2proc:same"], "policies": wcat.POL_WIDE + wcat.POL_PROC, "bound": 1, "demote": True, "cap": 60000},
        {"scens": [s for s in wcat.twoproc_scenarios() if s["family"] == "2proc:same"], "policies": ("FIFO",), "bound": 1 if q else 2, "demote": True, "cap": 400000},
    ]
    return run_w(ctx, PROPERTY, plan,
                 "submission sequences with duplicates at every position, after a wait, across two consecutive experiments (success marker present), "
                 "re-submission after failure; two nested experiments and two simulated scheduler processes submitting the same job with "
                 "fine-grained scheduling points (every file / lock operation); all schedules within the deviation bound; oracles: submit returns the "
                 "first submission's output and job, body intervals of one job identifier never overlap, no body start after a successful body end, "
                 "no launch when a success marker exists")


# ---------------------------------------------------------------------------------------------- real task processes, pairwise
def pair_exploration(ctx, res):
    """Two real TaskRunner processes on one job directory: A is stopped at every traced line (also inside the body,
    while it holds the run lock), B runs meanwhile, A is resumed.  The body must never run twice at a time and must not
    run again after it succeeded."""
    from .c10 import VARIANTS
    from .pool import Pool
    fresh = {"done": False, "failed": None, "starts": 0, "ends": 0}
    failed = {"done": False, "failed": "1", "starts": 0, "ends": 0}
    done = {"done": True, "failed": None, "starts": 0, "ends": 0}
    n = 0
    with Pool(seeds=[0], init="engines.crash:worker_init") as pool:
        items = []
        for variant in VARIANTS[:2]:
            for state in (fresh, failed, done):
                base = pool.map("engines.crash:launch", [{"variant": variant, "state": state, "k": 0, "sig": 9}])[0]
                nev = len(base.get("events", []))
                for k in range(1, nev + 1):
                    items.append({"variant": variant, "state": state, "k": k})
        outs = pool.map("engines.crash:launch_pair", items)
        # three launches (failing variant): the second one is held inside its body while a third one is started
        fail_variant = next(v for v in VARIANTS if v["code"] != 0 and v["how"] == "exit")
        base = pool.map("engines.crash:launch", [{"variant": fail_variant, "state": fresh, "k": 0, "sig": 9}])[0]
        titems = [{"variant": fail_variant, "state": fresh, "k": k} for k in range(1, len(base.get("events", [])) + 1)]
        touts = pool.map("engines.crash:launch_triple", titems)
        # the scheduler side of the run lock (the tree's own connector lock class) held while a job process arrives, then given up;
        # the job process free-running (k = 0: it is waiting inside acquire) or stopped at every traced line event while the lock is given up
        hitems = [{"variant": fail_variant, "state": fresh, "k": k} for k in [0] + list(range(1, len(base.get("events", [])) + 1))[:: (4 if ctx.quick else 1)]]
        houts = pool.map("engines.crash:launch_holder", hitems)
    nhold, hheld = 0, 0
    for it, o in zip(hitems, houts):
        nhold += 1
        log = o["log"]
        hheld += "first-body-held" in o["phases"]
        if any(log[i] == "start" and log[i + 1] == "start" for i in range(len(log) - 1)) or "second-body-started-while-first-held" in o["phases"]:
            res.violation("taskrunner-holder:two-bodies-at-once", f"a process holds the run lock through the connector's lock class, job process A arrives (stopped at line event "
                          f"{it['k']}), the holder leaves, A is held inside its body, B launched: body log {log} phases {o['phases']}", {"pair": True, "holder": True, "item": it, "result": o})
        if o["hang"] or "holder-did-not-lock" in o["phases"] or o["exits"][0] != 0:
            res.violation("taskrunner-holder:hang", f"A stopped at {it['k']}: phases {o['phases']} exits {o['exits']}", {"pair": True, "holder": True, "item": it, "result": o})
    res.coverage["taskrunner_holder_launches"] = nhold
    res.coverage["taskrunner_holder_first_body_held"] = hheld
    ntriple, held = 0, 0
    for it, o in zip(titems, touts):
        ntriple += 1
        log = o["log"]
        held += "second-body-held" in o["phases"]
        if any(log[i] == "start" and log[i + 1] == "start" for i in range(len(log) - 1)):
            res.violation("taskrunner-triple:two-bodies-at-once", f"failing job, A stopped at line event {it['k']}, B waiting, A resumed and failed, B retried and was held inside its "
                          f"body, C launched: body log {log} phases {o['phases']}", {"pair": True, "triple": True, "item": it, "result": o})
        if o["hang"]:
            res.violation("taskrunner-triple:hang", f"A stopped at {it['k']}: a process did not end (phases {o['phases']})", {"pair": True, "triple": True, "item": it, "result": o})
    res.coverage["taskrunner_triple_launches"] = ntriple
    res.coverage["taskrunner_triple_second_body_held"] = held
    for it, o in zip(items, outs):
        n += 1
        vname = f"{it['variant']['how']}{it['variant']['code']}"
        log = o["log"]
        payload = {"pair": True, "item": it, "result": o}
        overlap = any(log[i] == "start" and log[i + 1] == "start" for i in range(len(log) - 1))
        if overlap:
            res.violation("taskrunner-pair:two-bodies-at-once", f"{vname} from {it['state']}, A stopped at line event {it['k']} {o.get('paused_at')}: body log {log}", payload)
        starts = log.count("start")
        ok_variant = it["variant"]["code"] == 0
        if it["state"]["done"] and starts:
            res.violation("taskrunner-pair:body-run-despite-marker", f"{vname}: success marker present, body log {log}", payload)
        if ok_variant and not it["state"]["done"] and starts != 1:
            res.violation(f"taskrunner-pair:body-run-{starts}-times", f"{vname} from {it['state']}, A stopped at line event {it['k']} {o.get('paused_at')}: body log {log} "
                          f"(B finished before A resumed: {o.get('b_finished_before_resume')})", payload)
        if o["hang"]:
            res.violation("taskrunner-pair:hang", f"{vname} from {it['state']}, A stopped at {it['k']}: a process did not end", payload)
    res.coverage["taskrunner_pair_launches"] = n
    res.coverage["evaluations"] = res.coverage.get("evaluations", 0) + n + ntriple
    res.coverage["traces_validated_against_impl"] = res.coverage.get("traces_validated_against_impl", 0) + n + ntriple


_w_run = run


def run(ctx):  # noqa: F811
    res = _w_run(ctx)
    pair_exploration(ctx, res)
    res.coverage["rule"] += ("; plus triples of real TaskRunner processes (failing job: A stopped at every traced line event, B waits for the run lock, A fails and leaves, "
                             "B is held inside its body while C is launched - C must wait); plus pairs of REAL TaskRunner processes on one job directory: process A stopped (SIGSTOP) at every traced line event of "
                             "run.py / the script / the task body, process B started meanwhile, A resumed - the body log must show no overlap and "
                             "exactly one successful body")
    return res


_w_replay = replay


def replay(ctx, payload):  # noqa: F811
    if payload.get("pair"):
        from . import crash
        crash.worker_init()
        print(crash.launch_pair(payload["item"]))
        return 0
    return _w_replay(ctx, payload)
