"""C05 — a task configuration is executed at most once per successful result (Engine W)."""
from . import wcat
from .wcheck import replay, run_w  # noqa

PROPERTY = "C05"
LEVEL = "model_checking"


def run(ctx):
    q = ctx.quick
    plan = [
        {"scens": wcat.history_scenarios(), "policies": ("FIFO", "LIFO", "JOBS"), "bound": 1 if q else 2, "cap": 40000},
        {"scens": wcat.nested_scenarios(), "policies": ("FIFO",), "bound": 1 if q else 2, "cap": 40000},
        {"scens": [s for s in wcat.twoproc_scenarios() if s["family"] == "2proc:same"], "policies": ("FIFO", "LIFO"), "bound": 1 if q else 2, "cap": 60000},
    ]
    return run_w(ctx, PROPERTY, plan,
                 "submission sequences with duplicates at every position, after a wait, across two consecutive experiments (success marker present), "
                 "re-submission after failure; two nested experiments and two simulated scheduler processes submitting the same job with "
                 "fine-grained scheduling points (every file / lock operation); all schedules within the deviation bound; oracles: submit returns the "
                 "first submission's output and job, body intervals of one job identifier never overlap, no body start after a successful body end, "
                 "no launch when a success marker exists")
