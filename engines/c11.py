"""C11 — restarting a killed experiment adopts running jobs and repeats nothing (Engine W, fault enumeration)."""
from . import wcat
from .wcheck import replay, run_w  # noqa

PROPERTY = "C11"
LEVEL = "fault_enumeration"


def run(ctx):
    q = ctx.quick
    ks = wcat.kill_scenarios()
    kf = wcat.kill_fail_scenarios()
    plan = [
        {"scens": ks, "policies": ("FIFO",), "kills": {"restart_bound": 0}},
        {"scens": ks, "policies": ("JOBS",), "kills": {"restart_bound": 0}},
        {"scens": kf, "policies": ("FIFO",), "kills": {"restart_bound": 0}},
        {"scens": kf, "policies": ("LIFO",), "kills": {"restart_bound": 0}},
        {"scens": [ks[0], ks[3]] if q else ks, "policies": ("FIFO",), "kills": {"restart_bound": 1}},
        {"scens": ks[:3] if q else ks, "policies": ("LIFO",), "kills": {"restart_bound": 0}},
        # one deviation after the kill around LIFO as well (the orphaned job process is slow to reach its run lock)
        {"scens": ks[:1] if q else ks[:4], "policies": ("LIFO",), "kills": {"restart_bound": 1}},
    ]
    if not q:
        plan.append({"scens": ks, "policies": ("LIFO",), "kills": {"restart_bound": 0}})
    return run_w(ctx, PROPERTY, plan,
                 "scripts {single job, chain of 2, fork, job+token, chain+token, two jobs+token}: the first run (default policies FIFO / JOBS-FIRST, "
                 "fine-grained points: every file, lock, spawn operation is a scheduling point) is killed abruptly before every scheduling step "
                 "(SIGKILL/SIGTERM/SIGHUP are the same event for a process without handlers), the job processes live on, the same script is started "
                 "again in a fresh process at once (FIFO) or after the orphans finished (JOBS-FIRST) and explored with <= restart_bound deviations; "
                 "oracles over both runs: each successful body executed exactly once and never twice at a time, restarted run ends all DONE without "
                 "hang or exception, no token file left, available == total",
                 level=LEVEL, extra_assumptions=["SIGINT (handler -> experiment.stop()) is not explored: the signal handler is stubbed in the virtual world",
                                                 "the pid file is written by the scheduler after the spawn; a kill between the two is one of the kill points"])


_w_run = run


def run(ctx):  # noqa: F811
    """+ pairs of real TaskRunner processes (a relaunch is serialised behind a still running body): see c05.pair_exploration"""
    from .c05 import pair_exploration
    res = _w_run(ctx)
    pair_exploration(ctx, res)
    res.coverage["rule"] += ("; plus triples of real TaskRunner processes (failing job: A stopped at every traced line event, B waits for the run lock, A fails and leaves, "
                             "B is held inside its body while C is launched - C must wait); plus pairs of REAL TaskRunner processes on one job directory (the orphan and the relaunched process): A stopped at "
                             "every traced line event, B started meanwhile, A resumed - exactly one successful body, never two at a time")
    return res


_w_replay = replay


def replay(ctx, payload):  # noqa: F811
    if payload.get("pair"):
        from . import crash
        crash.worker_init()
        print(crash.launch_pair(payload["item"]))
        return 0
    return _w_replay(ctx, payload)
