"""Engine G: builds real configuration graphs from descriptions following an explicit construction history.

See refmodel.py for the description format.  Everything here touches the real experimaestro code.
"""
from __future__ import annotations

import contextlib
import io
import os
import shutil
import sys
import tempfile
from pathlib import Path

from .refmodel import SCHEMA, is_dictv, is_ref, refs_in

_STATE = {}


def worker_init():
    """One DRY_RUN experiment per worker process (its scheduler thread is started once and never used)."""
    import logging
    sys._called_from_test = True
    logging.getLogger().setLevel(logging.CRITICAL)
    logging.getLogger("xpm").setLevel(logging.CRITICAL)
    import experimaestro.core.objects as xobj
    from experimaestro import experiment
    from experimaestro.scheduler.workspace import RunMode
    xobj.cprint = lambda *a, **k: None
    xobj.inspect = _CheapInspect()
    d = tempfile.mkdtemp(prefix="vg", dir=os.environ.get("VERIF_SCRATCH", "/dev/shm"))
    _STATE["dir"] = d
    xp = experiment(d, "g", run_mode=RunMode.DRY_RUN, port=-1)
    xp.__enter__()
    _STATE["xp"] = xp
    import atexit
    atexit.register(lambda: shutil.rmtree(d, ignore_errors=True))


class _CheapInspect:
    """Stand-in for the `inspect` module inside core/objects.py: inspect.stack() reads the source of every frame of
    the stack (40% of the cost of building a configuration); only frame [1][0] is used, to fill an error-message string."""

    def __getattr__(self, k):
        import inspect
        return getattr(inspect, k)

    def stack(self):
        f = sys._getframe(1)
        return [(f,), (f.f_back,)]


def ensure_init():
    if "xp" not in _STATE:
        worker_init()
    return _STATE["xp"]


def pycls(key):
    import universe.g as U
    return getattr(U, SCHEMA[key]["py"])


class Built:
    def __init__(self):
        self.objs = {}      # label -> config object as *value* (for outputs: the marked output config)
        self.tasks = {}     # label -> task config object (for task nodes)
        self.submitted = set()
        self.errors = []


@contextlib.contextmanager
def quiet():
    old = sys.stderr
    sys.stderr = io.StringIO()
    try:
        yield
    finally:
        sys.stderr = old


def order_nodes(G, root):
    """Post-order over the description (children first); returns (order, back_edges) where back edges are
    (label, argname) pairs that must be assigned after construction."""
    order, state = [], {}
    back = set()

    def visit(l):
        state[l] = 1
        n = G["nodes"][l]
        succ = []
        if "output_of" in n:
            succ.append((None, n["output_of"]))
        else:
            for name in sorted(n["args"]):
                for r in refs_in(n["args"][name]):
                    succ.append((name, r))
        for p in n.get("pre", []):
            succ.append(("__pre__", p))
        for p in n.get("init", []):
            succ.append(("__init__", p))
        for name, r in succ:
            if state.get(r) == 1:
                back.add((l, name))
            elif r not in state:
                visit(r)
        state[l] = 2
        order.append(l)

    visit(root)
    return order, back


def to_py(v, B, rev=False):
    import universe.g as U
    if is_ref(v):
        return B.objs[v["ref"]]
    if isinstance(v, list):
        return [to_py(x, B, rev) for x in v]
    if isinstance(v, dict) and "enum" in v:
        return U.Color[v["enum"]]
    if isinstance(v, dict) and "path" in v:
        return Path(v["path"])
    if is_dictv(v):
        keys = sorted(v["dict"], reverse=rev)
        return {k: to_py(v["dict"][k], B, rev) for k in keys}
    return v


def build(G, style="kw", rev=False, submit_root=False, extra=None, init=True):
    """Builds the graph.  Task nodes other than the root are submitted (DRY_RUN) as soon as they are complete,
    which the API requires before they can be used as values.  `extra(label, obj, B)` is called on every node
    right after construction (used by C02 to apply object-level neutral edits)."""
    from experimaestro import setmeta
    if init:
        ensure_init()
    B = Built()
    root = G["root"]
    order, back = order_nodes(G, root)
    deferred = []
    for l in order:
        n = G["nodes"][l]
        if "output_of" in n:
            # value produced by submitting the task
            B.objs[l] = B.objs[n["output_of"] + "#out"]
            if n.get("pre"):
                B.objs[l].add_pretasks(*[B.objs[p] for p in n["pre"]])
            continue
        cls = pycls(n["cls"])
        names = sorted(n["args"], reverse=rev)
        now = [a for a in names if (l, a) not in back]
        later = [a for a in names if (l, a) in back]
        if style == "kw":
            obj = cls(**{a: to_py(n["args"][a], B, rev) for a in now})
        else:
            obj = cls()
            for a in now:
                if style == "assign-peek":
                    _peek(obj)
                setattr(obj, a, to_py(n["args"][a], B, rev))
            # (no request after the last assignment: the identifier seen last is that of an unfinished configuration)
        B.objs[l] = obj
        for a in later:
            deferred.append((obj, a, n["args"][a]))
        if n.get("meta") is not None:
            setmeta(obj, n["meta"])
        for k, v in sorted((n.get("tags") or {}).items()):
            obj.tag(k, v)
        if extra:
            extra(l, obj, B)
        pre = [p for p in n.get("pre", []) if (l, "__pre__") not in back]
        if pre:
            obj.add_pretasks(*[B.objs[p] for p in pre])
        if SCHEMA[n["cls"]].get("task"):
            B.tasks[l] = obj
            if l != root or submit_root:
                submit(G, B, l)
    for obj, a, v in deferred:
        if style == "assign-peek":
            _peek(obj)
        setattr(obj, a, to_py(v, B, rev))
    for (l, name) in back:
        if name == "__pre__":
            B.objs[l].add_pretasks(*[B.objs[p] for p in G["nodes"][l]["pre"]])
    return B


def _peek(obj):
    """History "identifier requested in the middle of the construction": whatever it answers (or raises, when a required
    value is still missing) must not influence the identifier of the finished configuration."""
    try:
        obj.__xpm__.identifier
        obj.__xpm__.raw_identifier
    except Exception:  # noqa
        pass


def submit(G, B, l, **kw):
    n = G["nodes"][l]
    obj = B.tasks[l]
    init = [B.objs[p] for p in n.get("init", [])]
    with quiet():
        out = obj.submit(init_tasks=init, **kw) if init else obj.submit(**kw)
    B.submitted.add(l)
    B.objs[l + "#out"] = out
    if SCHEMA[n["cls"]].get("outputs"):
        pass
    return out


def seal_root(G, B):
    root = G["root"]
    n = G["nodes"][root]
    if SCHEMA[n["cls"]].get("task") and "output_of" not in n:
        if root not in B.submitted:
            submit(G, B, root)
    else:
        from experimaestro.xpmutils import DirectoryContext
        B.objs[root].__xpm__.seal(DirectoryContext(Path(_STATE["dir"]) / "sealed"))


def ident(obj):
    x = obj.__xpm__
    return x.identifier.all.hex()


def raw_ident(obj):
    return obj.__xpm__.raw_identifier.all.hex()


def has_cycle(G):
    _, back = order_nodes(G, G["root"])
    return bool(back)
