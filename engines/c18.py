"""C18 — a launcher request only matches hosts that satisfy it (Engine S: closed exhaustive product).

Enumerated: request terms cpu(mem, cores) / cuda(mem)*n / duration, combined with & (up to 3 terms) and
| (2 alternatives), every expression programmatic and textual (3 whitespace layouts), against a grid of
host specifications.  Oracle: an independent sufficiency predicate (below), structural equality of
parse(text) with the programmatic value, order of alternatives, deep snapshots of operands.
"""
from __future__ import annotations

import itertools
import copy

from .common import Result, clip_samples

PROPERTY = "C18"
LEVEL = "exploration"

G = 10 ** 9
CPU_MEM = [None, "4G", "70G"]
CPU_CORES = [None, 1, 8]
CUDA_MEM = [None, "8G", "24G"]
CUDA_N = [1, 2, 3]
DURATIONS = [("1h", 3600, "duration=1h"), ("10h", 36000, "duration=10 hours"), ("2d", 172800, "duration=2d")]

SIZE = {None: 0, "4G": 4 * G, "70G": 70 * G, "8G": 8 * G, "24G": 24 * G, "12G": 12 * G, "64G": 64 * G}


# ---- terms: (kind, params) with a reference value, a programmatic builder and a text
def terms():
    out = []
    for mem in CPU_MEM:
        for cores in CPU_CORES:
            ref = {"mem": SIZE[mem], "cores": cores if cores is not None else 1, "gpus": [], "dur": 0}
            parts = ([f"mem={mem}"] if mem else []) + ([f"cores={cores}"] if cores is not None else [])
            text = f"cpu({', '.join(parts)})" if parts else None
            out.append(("cpu", (mem, cores), ref, text))
    for mem in CUDA_MEM:
        for n in CUDA_N:
            ref = {"mem": 0, "cores": 0, "gpus": [SIZE[mem]] * n, "dur": 0}
            text = (f"cuda(mem={mem})" + (f" * {n}" if n > 1 else "")) if mem else None
            out.append(("cuda", (mem, n), ref, text))
    for name, secs, text in DURATIONS:
        out.append(("duration", (name,), {"mem": 0, "cores": 0, "gpus": [], "dur": secs}, text))
    return out


def build_term(specs, t):
    kind, p = t[0], t[1]
    if kind == "cpu":
        kw = {}
        if p[0]:
            kw["mem"] = p[0]
        if p[1] is not None:
            kw["cores"] = p[1]
        return specs.cpu(**kw)
    if kind == "cuda":
        r = specs.cuda_gpu(mem=p[0]) if p[0] else specs.cuda_gpu()
        return r * p[1]
    return specs.duration(p[0])


def ref_and(refs):
    return {"mem": max(r["mem"] for r in refs), "cores": max(r["cores"] for r in refs),
            "gpus": sorted(g for r in refs for g in r["gpus"]), "dur": max(r["dur"] for r in refs)}


def snap(req):
    """Deep structural snapshot of a HostSimpleRequirement (or union)."""
    if hasattr(req, "cuda_gpus"):
        return {"mem": req.cpu.memory, "cores": req.cpu.cores, "gpus": [g.memory for g in req.cuda_gpus],
                "dur": req.duration}
    return [snap(r) for r in req.requirements]


def norm(s):
    s = dict(s)
    s["gpus"] = sorted(s["gpus"])
    return s


def sufficient(ref, host):
    """Reference predicate: does the host offer what the request asks for?"""
    gpus, hg = ref["gpus"], host["gpus"]
    if len(hg) < len(gpus):
        return False
    if gpus:
        ok = False
        for perm in itertools.permutations(range(len(hg)), len(gpus)):
            if all(hg[h] >= g for h, g in zip(perm, gpus)):
                ok = True
                break
        if not ok:
            return False
    if host["mem"] < ref["mem"] or host["cores"] < ref["cores"]:
        return False
    if host["maxdur"] > 0 and ref["dur"] > host["maxdur"]:
        return False
    return True


def hosts():
    out = []
    for mem in (12 * G, 64 * G):
        for cores in (4, 16):
            for gpus in ([], [8 * G], [24 * G], [24 * G, 8 * G], [8 * G, 24 * G], [24 * G, 24 * G], [24 * G, 24 * G, 8 * G]):
                for maxdur in (0, 7200, 360000):
                    for min_gpu in (0, 1):
                        out.append({"mem": mem, "cores": cores, "gpus": gpus, "maxdur": maxdur, "min_gpu": min_gpu})
    return out


def mk_host(specs, h):
    return specs.HostSpecification(
        cuda=[specs.CudaSpecification(memory=g) for g in h["gpus"]],
        cpu=specs.CPUSpecification(memory=h["mem"], cores=h["cores"]),
        max_duration=h["maxdur"], min_gpu=h["min_gpu"])


LAYOUTS = [
    lambda parts, sep: f" {sep} ".join(parts),
    lambda parts, sep: sep.join(p.replace(" ", "") for p in parts),
    lambda parts, sep: "  " + f"   {sep}  ".join(p.replace("(", "( ").replace(")", " )").replace("=", " = ").replace(",", " ,") for p in parts) + "  ",
]


def run(ctx):
    from experimaestro.launcherfinder import specs
    from experimaestro.launcherfinder.parser import parse

    res = Result(ctx, LEVEL)
    T = terms()
    H = hosts()
    HS = [mk_host(specs, h) for h in H]
    # --- simple requests: sequences of <=3 terms (quick: all of length <=2, length 3 with pairwise distinct kinds or a repeated kind once)
    seqs = [(t,) for t in T] + list(itertools.product(T, repeat=2))
    if ctx.quick:
        seqs += [s for s in itertools.product(T, repeat=3) if len({t[0] for t in s}) == 3]
    else:
        seqs += list(itertools.product(T, repeat=3))
    evaluations = 0
    distinct = set()
    unmatched_sufficient = 0
    samples = []

    def check_match(req, ref, label, payload):
        nonlocal evaluations, unmatched_sufficient
        for h, hs in zip(H, HS):
            evaluations += 1
            try:
                m = req.match(hs)
            except Exception as e:  # noqa
                res.violation(f"match-raises:{type(e).__name__}", f"{label}: match raised {e!r}", dict(payload, host=h))
                continue
            suff = sufficient(ref, h)
            if ref["gpus"] or ref["mem"] or ref["cores"] or ref["dur"]:
                distinct.add((ref["mem"], ref["cores"], tuple(ref["gpus"]), ref["dur"],
                              h["mem"], h["cores"], tuple(h["gpus"]), h["maxdur"], h["min_gpu"]))
            if m is not None and not suff:
                what = []
                if len(h["gpus"]) < len(ref["gpus"]) or (ref["gpus"] and not sufficient(dict(ref, mem=0, cores=0, dur=0), h)):
                    what.append("gpu")
                if h["mem"] < ref["mem"]:
                    what.append("cpu-mem")
                if h["cores"] < ref["cores"]:
                    what.append("cores")
                if h["maxdur"] > 0 and ref["dur"] > h["maxdur"]:
                    what.append("duration")
                res.violation("match-insufficient:" + "+".join(what),
                              f"{label}: request {ref} matched host {h} which does not satisfy it ({what})",
                              dict(payload, host=h))
            if m is None and suff and len(ref["gpus"]) >= h["min_gpu"]:
                unmatched_sufficient += 1

    for seq in seqs:
        refs = [t[2] for t in seq]
        ref = ref_and(refs)
        payload = {"kind": "and", "terms": [[t[0], list(t[1])] for t in seq]}
        ops = [build_term(specs, t) for t in seq]
        before = [snap(o) for o in ops]
        req = ops[0]
        for o in ops[1:]:
            req = req & o
        after = [snap(o) for o in ops]
        if before != after:
            res.violation("operand-altered:and", f"operands of & changed: {before} -> {after}", payload)
        for o, t in zip(ops, seq):
            if norm(snap(o)) != norm(t[2]):
                res.violation("term-value", f"term {t[0]}{t[1]} has value {snap(o)} expected {t[2]}", payload)
        if norm(snap(req)) != norm(ref):
            res.violation("and-value", f"{payload['terms']}: & gives {snap(req)}, expected {ref}", payload)
        check_match(req, ref, "programmatic", payload)
        # textual
        if all(t[3] for t in seq):
            for li, lay in enumerate(LAYOUTS):
                text = lay([t[3] for t in seq], "&")
                tp = dict(payload, text=text)
                try:
                    parsed = parse(text)
                except Exception as e:  # noqa
                    res.violation(f"parse-raises:{type(e).__name__}", f"parse({text!r}) raised {e!r}", tp)
                    continue
                evaluations += 1
                if len(parsed) != 1 or norm(snap(parsed[0])) != norm(ref):
                    res.violation("parse-differs", f"parse({text!r}) = {[snap(p) for p in parsed]}, programmatic equivalent {ref}", tp)
                elif li == 0:
                    check_match(parsed[0], ref, f"text {text!r}", tp)
        if len(samples) < 4 and len(seq) == 3:
            samples.append({"request": payload["terms"], "reference": ref})

    # --- multiplication never alters the operand and multiplies the GPU list only
    for t in T:
        for n in (1, 2, 3):
            o = build_term(specs, t)
            b = snap(o)
            try:
                r = o * n
            except Exception as e:  # noqa
                res.violation("mul-raises", f"{t[0]}{t[1]} * {n} raised {e!r}", {"kind": "mul", "term": [t[0], list(t[1])], "n": n})
                continue
            evaluations += 1
            if snap(o) != b:
                res.violation("operand-altered:mul", f"{t[0]}{t[1]} * {n}: operand changed {b} -> {snap(o)}", {"kind": "mul", "term": [t[0], list(t[1])], "n": n})
            exp = dict(t[2], gpus=t[2]["gpus"] * n)
            if norm(snap(r)) != norm(exp):
                res.violation("mul-value", f"{t[0]}{t[1]} * {n} = {snap(r)} expected {exp}", {"kind": "mul", "term": [t[0], list(t[1])], "n": n})
            # mutate the product: operand must be unaffected (aliasing)
            if r is not o:
                r.cpu.memory += 1
                r.cuda_gpus.append(specs.CudaSpecification(1))
                if snap(o) != b:
                    res.violation("operand-aliased:mul", f"{t[0]}{t[1]} * {n} shares state with its operand", {"kind": "mul", "term": [t[0], list(t[1])], "n": n})

    # --- alternatives: a | b with a, b single terms or cpu&cuda&duration combos
    alts = [(t,) for t in T]
    alts += [s for s in itertools.product(T, repeat=2) if s[0][0] < s[1][0]][:: (7 if ctx.quick else 1)]
    n_union = 0
    for a, b in itertools.product(alts, repeat=2):
        if ctx.quick and (len(a) + len(b) > 3):
            continue
        n_union += 1
        refa, refb = ref_and([t[2] for t in a]), ref_and([t[2] for t in b])
        payload = {"kind": "or", "a": [[t[0], list(t[1])] for t in a], "b": [[t[0], list(t[1])] for t in b]}

        def mk(seq):
            ops = [build_term(specs, t) for t in seq]
            r = ops[0]
            for o in ops[1:]:
                r = r & o
            return r
        ra, rb = mk(a), mk(b)
        sa, sb = snap(ra), snap(rb)
        u = ra | rb
        if (snap(ra), snap(rb)) != (sa, sb):
            res.violation("operand-altered:or", f"operands of | changed", payload)
        for h, hs in zip(H, HS):
            evaluations += 1
            m = u.match(hs)
            ma, mb = ra.match(hs), rb.match(hs)
            exp = ra if ma is not None else (rb if mb is not None else None)
            got = None if m is None else m.requirement
            if got is not exp:
                res.violation("union-order", f"({refa}) | ({refb}) on host {h}: matched {None if got is None else snap(got)}, "
                              f"expected first matching alternative {None if exp is None else snap(exp)}", dict(payload, host=h))
            if m is not None and not (sufficient(refa, h) if got is ra else sufficient(refb, h)):
                res.violation("match-insufficient:union", f"union matched an insufficient host {h}", dict(payload, host=h))
        # a union extended by a further alternative (u | c, c | u): the union u is an operand too and must not change - neither its
        # structure nor what it matches; the extended request matches exactly the hosts that satisfy one of the alternatives
        if len(a) == 1 and len(b) == 1:
            su = snap(u)
            before = [u.match(hs) is not None for hs in HS]
            for c in [(t,) for t in T][:: (3 if ctx.quick else 1)]:
                rc = mk(c)
                sc_ = snap(rc)
                refc = ref_and([t[2] for t in c])
                for side, ext in (("left", lambda: u | rc), ("right", lambda: rc | u)):
                    try:
                        u3 = ext()
                    except Exception as e:  # noqa
                        res.violation(f"or-raises:{type(e).__name__}", f"extending a union raised {e!r}", dict(payload, c=[[t[0], list(t[1])] for t in c], side=side))
                        continue
                    evaluations += 1
                    if snap(u) != su or snap(rc) != sc_ or (snap(ra), snap(rb)) != (sa, sb):
                        res.violation("operand-altered:or:union", f"(a | b) | c with the union as {side} operand: an operand changed ({su} -> {snap(u)})",
                                      dict(payload, c=[[t[0], list(t[1])] for t in c], side=side))
                        su, sc_, sa, sb = snap(u), snap(rc), snap(ra), snap(rb)
                    after = [u.match(hs) is not None for hs in HS]
                    if after != before:
                        res.violation("operand-altered:or:union-matches", f"the union (a | b) matches other hosts after it was extended by | c ({side})",
                                      dict(payload, c=[[t[0], list(t[1])] for t in c], side=side))
                        before = after
                    for h, hs in zip(H, HS):
                        evaluations += 1
                        got3 = u3.match(hs) is not None
                        want = any(r.match(hs) is not None for r in (ra, rb, rc))
                        if got3 != want:
                            res.violation("union3-match", f"({refa}) | ({refb}) | ({refc}) [{side}] on host {h}: matched={got3}, but its alternatives taken alone: {want}",
                                          dict(payload, c=[[t[0], list(t[1])] for t in c], side=side, host=h))
                        if got3 and not (sufficient(refa, h) or sufficient(refb, h) or sufficient(refc, h)):
                            res.violation("match-insufficient:union3", f"({refa}) | ({refb}) | ({refc}) [{side}] matched an insufficient host {h}",
                                          dict(payload, c=[[t[0], list(t[1])] for t in c], side=side, host=h))
        if all(t[3] for t in a + b):
            text = LAYOUTS[n_union % 3]([LAYOUTS[0]([t[3] for t in a], "&"), LAYOUTS[0]([t[3] for t in b], "&")], "|")
            try:
                parsed = parse(text)
                evaluations += 1
                if [norm(snap(p)) for p in parsed] != [norm(refa), norm(refb)]:
                    res.violation("parse-order", f"parse({text!r}) = {[snap(p) for p in parsed]} expected [{refa}, {refb}]", dict(payload, text=text))
            except Exception as e:  # noqa
                res.violation(f"parse-raises:{type(e).__name__}", f"parse({text!r}) raised {e!r}", dict(payload, text=text))

    # --- LauncherRegistry.find tries textual alternatives in the order given
    from experimaestro.launcherfinder.registry import LauncherRegistry
    from experimaestro.launchers.direct import DirectLauncher
    from experimaestro.connectors.local import LocalConnector
    import tempfile, pathlib
    with tempfile.TemporaryDirectory(prefix="c18") as d:
        reg = LauncherRegistry(pathlib.Path(d))
        launcher = DirectLauncher(LocalConnector.instance())
        singles = [t for t in T if t[3]]
        launchers = [DirectLauncher(LocalConnector.instance()), DirectLauncher(LocalConnector.instance())]
        hostpairs = list(itertools.product(list(zip(H, HS))[:: (13 if ctx.quick else 4)], repeat=2))
        for a, b in itertools.product(singles, repeat=2):
            ra, rb = build_term(specs, a), build_term(specs, b)
            for (h1, hs1), (h2, hs2) in hostpairs:
                calls = []

                def fn(spec, tags, hosts=(hs1, hs2)):
                    # a launchers.py that examines its hosts one after the other
                    calls.append(snap(spec))
                    for i, hs in enumerate(hosts):
                        if spec.match(hs):
                            return launchers[i]
                    return None
                reg.find_launcher_fn = fn
                evaluations += 1
                out = reg.find(f"{a[3]} | {b[3]}")
                # alternatives are tried in the order given: the first alternative that some host satisfies decides
                expected = None
                for r in (ra, rb):
                    hit = next((i for i, hs in enumerate((hs1, hs2)) if r.match(hs)), None)
                    if hit is not None:
                        expected = launchers[hit]
                        break
                if out is not expected:
                    which = lambda l: None if l is None else launchers.index(l) + 1
                    res.violation("find-order", f"find('{a[3]} | {b[3]}') over hosts {h1} then {h2} returned the launcher of host {which(out)}, "
                                  f"alternatives tried in order give host {which(expected)} (find_launcher was consulted with {calls})",
                                  {"kind": "find", "a": a[3], "b": b[3], "hosts": [h1, h2]})
                elif not calls or not isinstance(calls[0], dict) or norm(calls[0]) != norm(a[2]):
                    res.violation("find-order:first-call", f"find('{a[3]} | {b[3]}') first consulted {calls[:1]}", {"kind": "find", "a": a[3], "b": b[3], "hosts": [h1, h2]})

    res.coverage = {
        "evaluations": evaluations,
        "distinct_nontrivial": len(distinct),
        "rule": "all sequences of <=3 request terms (cpu mem x cores, cuda mem x count, duration) joined by &, all pairs of "
                "alternatives joined by |, each programmatic and textual (3 whitespace layouts), x all host specifications of the grid; "
                "a case is distinct+non-trivial when (canonical request, host) is new and the request asks for at least one resource",
        "samples": clip_samples(samples),
        "exhaustive": True,
        "requests_and": len(seqs), "requests_or": n_union, "hosts": len(H),
        "sufficient_but_unmatched_info": unmatched_sufficient,
    }
    res.assumptions = ["host-side policies (min_memory, priority) are not part of the property and are left at their defaults",
                       "completeness (a sufficient host is matched) is not claimed by the property; counted for information only"]
    return res


def replay(ctx, payload):
    from experimaestro.launcherfinder import specs
    from experimaestro.launcherfinder.parser import parse
    print("payload:", payload)
    T = {(t[0], tuple(t[1])): t for t in terms()}
    if payload.get("kind") == "and":
        seq = [T[(k, tuple(p))] for k, p in payload["terms"]]
        ops = [build_term(specs, t) for t in seq]
        print("operands before:", [snap(o) for o in ops])
        req = ops[0]
        for o in ops[1:]:
            req = req & o
        print("operands after :", [snap(o) for o in ops])
        print("result:", snap(req), "reference:", ref_and([t[2] for t in seq]))
        if "text" in payload:
            print("parse:", [snap(p) for p in parse(payload["text"])])
        if "host" in payload:
            print("match:", req.match(mk_host(specs, payload["host"])), "sufficient:", sufficient(ref_and([t[2] for t in seq]), payload["host"]))
    return 0
