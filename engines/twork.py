"""Engine T workloads: two user threads computing identifiers / sealing / instantiating configurations that share
sub-configurations (real threads, line-level preemption points in experimaestro/core/objects.py)."""
from __future__ import annotations

import itertools
import traceback
from pathlib import Path

from . import graphs as Gr
from . import tworld as T

FILES = ("experimaestro/core/objects.py",)


def ids(o):
    x = o.__xpm__
    return [x.identifier.all.hex(), x.raw_identifier.all.hex()]


def _seal(o):
    from experimaestro.xpmutils import DirectoryContext
    o.__xpm__.seal(DirectoryContext(Path(Gr._STATE["dir"]) / "sealed"))


def _instance(o):
    from experimaestro.xpmutils import DirectoryContext
    o.instance(DirectoryContext(Path(Gr._STATE["dir"]) / "inst"))
    return None


def _objects(shape, v):
    """Fresh objects of one shape; `v` is the value that distinguishes the two contents of the shape."""
    import universe.g as U
    if shape == "child-parent":
        x = U.Leaf(i=v, s="x")
        y = U.Box(child=x)
        return {"x": x, "y": y, "z": U.Ring(v=2, box=y)}
    if shape == "two-parents":
        x = U.Leaf(i=v)
        return {"x": x, "y": U.Box(child=x, sa="y"), "z": U.Holder(leaf=x)}
    if shape == "deep":
        x = U.Leaf(i=v)
        b = U.Box(child=U.Leaf(i=0), lst=[x], dct={"a": x})
        return {"x": x, "y": b, "z": U.Ring(v=1, box=b)}
    if shape == "ring":
        a, b = U.Ring(v=v), U.Ring(v=7)
        a.nxt = b
        b.nxt = a
        return {"x": a, "y": b, "z": U.Ring(v=3, nxt=a)}
    if shape == "pre":
        x = U.Leaf(i=v)
        y = U.Box(child=x)
        y.add_pretasks(U.PreT(k=1, leaf=x))
        return {"x": x, "y": y, "z": U.Holder(leaf=x, inner=U.Holder(leaf=U.Leaf(i=5)))}
    raise KeyError(shape)


SHAPES = ["child-parent", "two-parents", "deep", "ring", "pre"]
#: (name, thread 1, thread 2): what each thread does, as (verb, object key)
PAIRS = [
    ("ids(x)|ids(y)", ("ids", "x"), ("ids", "y")),
    ("ids(y)|ids(z)", ("ids", "y"), ("ids", "z")),
    ("ids(y)|ids(y)", ("ids", "y"), ("ids", "y")),
    ("seal(y)|ids(x)", ("seal", "y"), ("ids", "x")),
    ("seal(y)|ids(y)", ("seal", "y"), ("ids", "y")),
    ("seal(z)|ids(y)", ("seal", "z"), ("ids", "y")),
    ("instance(y)|ids(y)", ("instance", "y"), ("ids", "y")),
    ("instance(z)|ids(x)", ("instance", "z"), ("ids", "x")),
]
PRESEAL = [None, "z"]     # objects sealed (by the main thread) before the two threads start


def workloads(quick=True):
    out = []
    for shape, (pname, a, b), pre in itertools.product(SHAPES if not quick else ["child-parent", "ring", "pre"], PAIRS, PRESEAL):
        if pre and (a[0] != "ids" or b[0] != "ids"):
            continue
        if shape == "ring" and "instance" in (a[0], b[0]):
            pass
        out.append({"shape": shape, "pair": pname, "a": a, "b": b, "preseal": pre})
    return out


def _op(verb, o):
    if verb == "ids":
        return lambda: ids(o)
    if verb == "seal":
        return lambda: (_seal(o), ids(o))[1]
    if verb == "instance":
        return lambda: (_instance(o), ids(o))[1]
    raise KeyError(verb)


def eval_threads(item):
    """All schedules with <= bound preemptions of one workload, for the two contents v in (1, 2); the observation of every
    schedule must equal the sequential observation.  Returns counts, mismatches and the (content, identifier) pairs seen."""
    Gr.ensure_init()
    w, bound = item["w"], item.get("bound", 1)
    out = {"executions": 0, "mismatches": [], "seen": [], "steps": 0, "error": None, "outcomes": 0}
    try:
        for v in item.get("vs", (1, 2)):
            def build():
                objs = _objects(w["shape"], v)
                if w["preseal"]:
                    _seal(objs[w["preseal"]])
                ops = [_op(w["a"][0], objs[w["a"][1]]), _op(w["b"][0], objs[w["b"][1]])]

                def observe(results):
                    final = {k: ids(o) for k, o in objs.items()}
                    return {"results": results, "final": final}
                return ops, observe
            # sequential references (both orders), untraced
            refs = []
            for order in ((0, 1), (1, 0)):
                ops, observe = build()
                res = [None, None]
                for i in order:
                    res[i] = ("ok", ops[i]())
                refs.append(observe(res))
            if refs[0] != refs[1]:
                out["mismatches"].append({"kind": "sequential-order", "v": v, "a;b": refs[0], "b;a": refs[1]})
            seen_obs = set()
            for first, plan, obs, steps in T.explore(build, bound=bound, files=FILES, granularity=item.get("granularity", "line"), cap=item.get("cap"),
                                                         firsts=item.get("firsts")):
                out["executions"] += 1
                out["steps"] = max(out["steps"], sum(steps))
                seen_obs.add(repr(obs))
                if obs != refs[0]:
                    if len(out["mismatches"]) < 5:
                        out["mismatches"].append({"kind": "schedule", "v": v, "first": first, "plan": plan, "observed": obs, "sequential": refs[0]})
                    else:
                        out["mismatches"].append({"kind": "schedule", "v": v, "first": first, "plan": plan})
                # (content class = identifier of the same object in the sequential run, observed identifier)
                for k, idv in obs["final"].items():
                    out["seen"].append((refs[0]["final"][k][0], idv[0], f"{w['shape']}:{k}:v{v}"))
                for r, (verb, key) in zip(obs["results"], (w["a"], w["b"])):
                    if r and r[0] == "ok" and r[1]:
                        out["seen"].append((refs[0]["final"][key][0], r[1][0], f"{w['shape']}:{key}:v{v}"))
            out["outcomes"] += len(seen_obs)
        out["seen"] = sorted(set(out["seen"]))
    except Exception as e:  # noqa
        out["error"] = f"{type(e).__name__}: {e}\n{traceback.format_exc()[-1500:]}"
    return out


def run_family(pool, ctx, vs=(1, 2)):
    """Runs the whole family on the pool; returns (violations [(kind, key, message, payload)], stats)."""
    ws = workloads(ctx.quick)
    gran = "call" if ctx.quick else "line"
    # one item per (workload, content, first thread): small items balance better over the workers
    items = [{"w": w, "bound": 1, "granularity": gran, "vs": [v], "firsts": [f]} for w in ws for v in vs for f in (0, 1)]
    k = ctx.seed % len(items)
    items = items[k:] + items[:k]
    outs = pool.map("engines.twork:eval_threads", items)
    viol, by_id = [], {}
    stats = {"workloads": len(ws), "executions": 0, "max_line_events": 0, "distinct_observations": 0, "granularity": gran, "preemption_bound": 1, "contents_per_shape": len(vs),
             "traced_files": list(FILES)}
    for it, o in zip(items, outs):
        w = it["w"]
        name = f"{w['shape']}:{w['pair']}" + (":presealed" if w["preseal"] else "")
        if o["error"]:
            viol.append(("error", f"threads-raises:{w['shape']}", f"{name}: {o['error'][:600]}", {"threads": it}))
            continue
        stats["executions"] += o["executions"]
        stats["max_line_events"] = max(stats["max_line_events"], o["steps"])
        stats["distinct_observations"] += o["outcomes"]
        for m in o["mismatches"]:
            viol.append(("mismatch", f"identifier:threads:{w['shape']}", f"{name}: with thread {m.get('first')} first and preemptions {m.get('plan')} "
                         f"(thread, line event) the identifiers are {str(m.get('observed'))[:300]} - run one after the other: {str(m.get('sequential', m.get('a;b')))[:300]}",
                         {"threads": it, "mismatch": {k: m.get(k) for k in ('kind', 'v', 'first', 'plan')}}))
        for ref, obs, what in o["seen"]:
            by_id.setdefault(obs, {}).setdefault(ref, what)
    for obs, refs in by_id.items():
        if len(refs) > 1:
            a, b = list(refs.values())[:2]
            viol.append(("collision", "collision:threads", f"{a} and {b} (different contents) both received the identifier {obs[:16]} under some schedule of two threads",
                         {"threads": {"a": a, "b": b, "identifier": obs}}))
    return viol, stats


def replay(payload):
    Gr.ensure_init()
    it = payload["threads"]
    if "w" not in it:
        print(it)
        return 0
    m = payload.get("mismatch") or {}
    w = it["w"]
    print("workload:", w, "mismatch:", m)
    o = eval_threads(it)
    print({k: o[k] for k in ("executions", "steps", "outcomes", "error")})
    for x in o["mismatches"][:5]:
        print(x)
    return 0
