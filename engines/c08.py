"""C08 — jobs running under a token never hold more than its capacity (Engine W)."""
from . import wcat
from .wcheck import replay, run_w  # noqa

PROPERTY = "C08"
LEVEL = "model_checking"


def run(ctx):
    q = ctx.quick
    two = [s for s in wcat.twoproc_scenarios() if s["family"] == "2proc:tok"]
    plan = [
        {"scens": wcat.token_scenarios(("file", "process")), "policies": ("FIFO", "JOBS") if q else ("FIFO", "LIFO", "JOBS"), "bound": 1 if q else 2, "demote": True, "cap": 40000},
        {"scens": two, "policies": wcat.POL_WIDE, "bound": 1, "cap": 60000},
        # one deviation, including the "long preemption" (the default actor is descheduled until nothing else can run), under
        # process-priority policies as well; two deviations under FIFO in the thorough tier
        {"scens": two, "policies": ("FIFO", "LIFO", "JOBS") + wcat.POL_PROC + wcat.POL_EAGER, "bound": 1, "demote": True, "cap": 60000},
        *([] if q else [{"scens": two, "policies": ("FIFO",), "bound": 2, "cap": 600000},
                        # two long preemptions (and nothing else) around every process-priority policy
                        {"scens": two, "policies": ("FIFO", "LIFO") + wcat.POL_PROC, "bound": 2, "demote": "only", "cap": 200000}]),
        # thorough: two deviations at most 15 scheduling steps apart under LIFO as well
        *([] if q else [{"scens": two, "policies": ("LIFO",), "bound": 2, "window": 15, "demote": True, "cap": 400000}]),
        {"scens": wcat.nested_scenarios()[1:], "policies": ("FIFO", "LIFO", "JOBS"), "bound": 1, "demote": True, "cap": 30000},
        # a job under the token fails (or its process is killed: the pid file stays behind) and is launched again by its scheduler - its
        # token file has the same name at every launch - while a second process has jobs on the token
        {"scens": wcat.token_relaunch_scenarios(), "policies": wcat.POL_PROC + (() if q else ("FIFO", "LIFO", "JOBS")), "bound": 1, "demote": True, "cap": 60000},
    ]
    # fault dimension: one read of a token file fails with an I/O error (EIO: shared file systems) - every such read of the fault-free
    # execution around every default policy.  Only the capacity clause is claimed under this fault (what else happens to the job that
    # met the error is outside the statements of C06 / C09).
    plan.append({"scens": two + wcat.token_relaunch_scenarios() + wcat.nested_scenarios()[1:], "policies": wcat.POL_WIDE + wcat.POL_PROC + wcat.POL_EAGER[1:], "faults": "token-read"})
    relaunch = wcat.jobkill_relaunch_scenarios()
    for pol in (("FIFO",) + wcat.POL_PROC) if q else (wcat.POL_WIDE + wcat.POL_PROC + wcat.POL_EAGER[1:]):
        plan.append({"scens": relaunch, "policies": (pol,), "kills": {"restart_bound": 0}})
    # after the kill: one long preemption at every later point (the other process is slow, then everything it does happens at once)
    for pol in (("Q:1,2,job",) if q else ("Q:1,2,job", "Q:2,1,job", "FIFO")):
        plan.append({"scens": relaunch[:1] if q else relaunch, "policies": (pol,), "kills": {"restart_bound": 1, "demote": "only"}})
    return run_w(ctx, PROPERTY, plan,
                 "token workloads (capacity; requests) in {(1;1,1) (1;1,1,1) (2;1,1,1) (2;2,1) (3;2,1) (3;2,2) (2;1,2,1)}, failing holder, chain / fork "
                 "under a token, two tokens, file-based and process-level tokens, two simulated processes sharing the token directory with "
                 "fine-grained points; one read of a token file failing with EIO (every read x every default policy); a failed / killed holder launched again while a second process shares the token (every kill point, long preemptions after the kill); at every launch and every token-file creation the sum of requests of live job processes / of token files "
                 "must not exceed the capacity")
