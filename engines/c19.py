"""C19 — job filters mean what they say; cleaning commands delete only what is selected (Engines S + F).

(a) filter expressions x assignments of tags / state against a reference evaluator (real JobInformation objects over
    real job directories);
(b) workspace layouts x real CLI commands (`jobs clean`, `orphans`) through click's CliRunner: expected deletion
    set vs the directories that actually disappeared.
"""
from __future__ import annotations

import itertools
import json
import os
import re
import shutil
import tempfile
from pathlib import Path

from .common import Result, clip_samples
from .pool import Pool

PROPERTY = "C19"
LEVEL = "exploration"

TAGVALS = [None, "a", "b"]
VERVALS = [None, "1.5", "125"]
STATES = [None, "DONE", "ERROR", "RUNNING"]
TASK = "my.task"
HEX = "0123456789abcdef" * 4


# ---------------------------------------------------------------------------------------------- (a) filters
def atoms():
    out = []
    for t in ("model", "mode"):
        for v in ("a", "b"):
            out.append((f'{t} = "{v}"', ("eq", t, v)))
        out.append((f"{t} = 'a'", ("eq", t, "a")))
        out.append((f'{t} in ["a"]', ("in", t, ["a"])))
        out.append((f'{t} in ["a", "b"]', ("in", t, ["a", "b"])))
        out.append((f'{t} not in ["b"]', ("notin", t, ["b"])))
        out.append((f'{t} not in ["a","b"]', ("notin", t, ["a", "b"])))
        out.append((f'{t} ~ "^a$"', ("re", t, "^a$")))
        out.append((f'{t} ~ "a|b"', ("re", t, "a|b")))
    # regular expressions / constants with a backslash (taken literally: the grammar defines no escape character)
    out.append((r'ver ~ "^1\.5$"', ("re", "ver", r"^1\.5$")))
    out.append((r'ver ~ "^\d+$"', ("re", "ver", r"^\d+$")))
    out.append(('ver = "1.5"', ("eq", "ver", "1.5")))
    out.append(('ver in ["1.5", "125"]', ("in", "ver", ["1.5", "125"])))
    out.append((r'ver = "1\.5"', ("eq", "ver", r"1\.5")))
    out.append(("model = mode", ("eqvar", "model", "mode")))
    for s in ("DONE", "ERROR", "RUNNING"):
        out.append((f'@state = "{s}"', ("eq", "@state", s)))
    out.append(('@state in ["DONE", "ERROR"]', ("in", "@state", ["DONE", "ERROR"])))
    out.append(('@state not in ["DONE"]', ("notin", "@state", ["DONE"])))
    out.append((f'@name = "{TASK}"', ("eq", "@name", TASK)))
    out.append(('@name ~ "^my"', ("re", "@name", "^my")))
    return out


def ref_atom(a, env):
    k = a[0]
    if k == "eq":
        return env.get(a[1]) == a[2]
    if k == "eqvar":
        return env.get(a[1]) == env.get(a[2])
    if k == "in":
        return env.get(a[1]) in a[2]
    if k == "notin":
        return env.get(a[1]) not in a[2]
    if k == "re":
        v = env.get(a[1])
        return bool(v) and re.match(a[2], v) is not None
    raise KeyError(k)


def expressions(quick):
    A = atoms()
    out = [(t, [a], None) for t, a in A]
    small = A[:: 2] if quick else A
    for op in ("and", "or"):
        for (t1, a1), (t2, a2) in itertools.product(A, repeat=2):
            out.append((f"{t1} {op} {t2}", [a1, a2], op))
        for trip in itertools.product(small, repeat=3):
            out.append((f" {op} ".join(t for t, _ in trip), [a for _, a in trip], op))
    return out


def ref_expr(e, env):
    _, ats, op = e
    vals = [ref_atom(a, env) for a in ats]
    if op is None:
        return vals[0]
    return all(vals) if op == "and" else any(vals)


_FILTER_DIR = {}


def filter_world():
    """36 real job directories: tags model/mode in {absent, a, b} x state markers."""
    if "d" in _FILTER_DIR:
        return _FILTER_DIR["infos"]
    from experimaestro.cli.filter import JobInformation
    d = Path(tempfile.mkdtemp(prefix="c19f", dir=os.environ.get("VERIF_SCRATCH", "/dev/shm")))
    import atexit
    atexit.register(lambda: shutil.rmtree(d, ignore_errors=True))
    infos = []
    n = 0
    for model, mode, ver, st in itertools.product(TAGVALS, TAGVALS, VERVALS, STATES):
        n += 1
        p = d / "jobs" / TASK / f"{n:064x}"
        p.mkdir(parents=True)
        tags = {k: v for k, v in (("model", model), ("mode", mode), ("ver", ver)) if v is not None}
        (p / "params.json").write_text(json.dumps({"tags": tags, "workspace": str(d), "objects": []}))
        if st == "DONE":
            (p / "task.done").touch()
        elif st == "ERROR":
            (p / "task.failed").write_text("1")
        elif st == "RUNNING":
            (p / "task.pid").write_text("{}")
        env = dict(tags)
        env["@state"] = st
        env["@name"] = TASK
        infos.append((JobInformation(p, "task"), env))
    _FILTER_DIR["d"] = d
    _FILTER_DIR["infos"] = infos
    return infos


def eval_filters(item):
    from experimaestro.cli.filter import createFilter
    infos = filter_world()
    out = {"n": 0, "bad": []}
    for e in item["exprs"]:
        text = e[0]
        try:
            f = createFilter(text)
        except Exception as ex:  # noqa
            out["bad"].append({"kind": "parse-raises", "expr": text, "error": f"{type(ex).__name__}: {ex}"[:200], "ops": sorted({a[0] for a in e[1]})})
            continue
        for info, env in infos:
            out["n"] += 1
            want = ref_expr(e, env)
            try:
                got = bool(f(info))
            except Exception as ex:  # noqa
                out["bad"].append({"kind": "filter-raises", "expr": text, "env": env, "error": f"{type(ex).__name__}: {ex}"[:200], "ops": sorted({a[0] for a in e[1]})})
                break
            if got != want:
                out["bad"].append({"kind": "wrong-answer", "expr": text, "env": env, "got": got, "want": want, "ops": sorted({a[0] for a in e[1]})})
                break
    return out


# ---------------------------------------------------------------------------------------------- (b) layouts and commands
JOB_STATES = ["none", "done", "failed", "running", "failed+running"]
MEMBER = ["jobs", "bak", "none"]


def layouts(quick):
    per_job = list(itertools.product(JOB_STATES, ("a", "b"), MEMBER))
    out = []
    for combo in itertools.product(per_job, repeat=2):
        out.append([{"state": s, "model": m, "member": mem} for s, m, mem in combo])
    # files written by the task body whose names merely END like a marker (task.epoch-3.done, task.step.failed): only <script>.done /
    # .failed / .pid are markers
    for stray in ("epoch-3.done", "step.failed", "old.pid"):
        for (s1, m1, mem1), (s2, m2, mem2) in itertools.product(per_job, [("done", "a", "jobs"), ("failed", "b", "none")]):
            out.append([{"state": s1, "model": m1, "member": mem1, "stray": stray}, {"state": s2, "model": m2, "member": mem2}])
    if not quick:
        # a few three-job layouts
        three = [("done", "a", "jobs"), ("failed", "b", "none"), ("running", "a", "bak"), ("done", "b", "none")]
        for combo in itertools.product(three, repeat=3):
            out.append([{"state": s, "model": m, "member": mem} for s, m, mem in combo])
    return out


COMMANDS = [
    {"cmd": "clean", "filter": None, "perform": True},
    {"cmd": "clean", "filter": None, "perform": False},
    {"cmd": "clean", "filter": 'model = "a"', "perform": True},
    {"cmd": "clean", "filter": '@state = "ERROR"', "perform": True},
    {"cmd": "clean", "filter": '@state = "DONE" and model = "b"', "perform": True},
    {"cmd": "clean", "filter": 'model in ["a"]', "perform": True},
    {"cmd": "clean", "filter": 'model not in ["a"]', "perform": False},
    {"cmd": "orphans", "clean": False},
    {"cmd": "orphans", "clean": True},
]


def build_layout(d: Path, layout):
    (d / ".__experimaestro__").touch()
    (d / "xp" / "x" / "jobs" / TASK).mkdir(parents=True)
    jobs = []
    for i, j in enumerate(layout):
        ident = f"{i + 1:064x}"
        p = d / "jobs" / TASK / ident
        p.mkdir(parents=True)
        (p / "params.json").write_text(json.dumps({"tags": {"model": j["model"]}, "workspace": str(d), "objects": []}))
        (p / "task.py").write_text("# script\n")
        st = j["state"]
        if st == "done":
            (p / "task.done").touch()
        if st in ("failed", "failed+running"):
            (p / "task.failed").write_text("1")
        if st in ("running", "failed+running"):
            (p / "task.pid").write_text(json.dumps({"type": "local", "pid": os.getpid()}))
        if j.get("stray"):
            (p / f"task.{j['stray']}").write_text("1" if j["stray"].endswith("failed") else json.dumps({"type": "local", "pid": os.getpid()}) if j["stray"].endswith("pid") else "")
        if j["member"] == "jobs":
            (d / "xp" / "x" / "jobs" / TASK / ident).symlink_to(p)
        elif j["member"] == "bak":
            (d / "xp" / "x" / "jobs.bak" / TASK).mkdir(parents=True, exist_ok=True)
            (d / "xp" / "x" / "jobs.bak" / TASK / ident).symlink_to(p)
        jobs.append(ident)
    return jobs


def expected_deleted(layout, cmd):
    out = set()
    for i, j in enumerate(layout):
        alive = j["state"] in ("running", "failed+running")
        if cmd["cmd"] == "clean":
            if not cmd["perform"]:
                continue
            finished = j["state"] in ("done", "failed")       # a job whose process is alive is not finished
            env = {"model": j["model"], "@state": {"done": "DONE", "failed": "ERROR", "running": "RUNNING", "none": None,
                                                   "failed+running": "RUNNING"}[j["state"]], "@name": TASK}
            sel = True
            f = cmd["filter"]
            if f == 'model = "a"' or f == 'model in ["a"]':
                sel = j["model"] == "a"
            elif f == '@state = "ERROR"':
                sel = env["@state"] == "ERROR"
            elif f == '@state = "DONE" and model = "b"':
                sel = env["@state"] == "DONE" and j["model"] == "b"
            elif f == 'model not in ["a"]':
                sel = j["model"] != "a"
            if finished and sel:
                out.add(i)
        else:
            if cmd["clean"] and j["member"] == "none":
                out.add(i)
    return out


def eval_layouts(item):
    from click.testing import CliRunner
    from experimaestro.__main__ import cli
    out = {"n": 0, "bad": []}
    runner = CliRunner()
    for layout in item["layouts"]:
        for cmd in COMMANDS:
            d = Path(tempfile.mkdtemp(prefix="c19l", dir=os.environ.get("VERIF_SCRATCH", "/dev/shm")))
            try:
                ids = build_layout(d, layout)
                if cmd["cmd"] == "clean":
                    args = ["jobs", "--workdir", str(d), "clean"] + (["--filter", cmd["filter"]] if cmd["filter"] else []) + (["--perform"] if cmd["perform"] else [])
                else:
                    args = ["orphans", str(d)] + (["--clean"] if cmd["clean"] else [])
                res = runner.invoke(cli, args)
                out["n"] += 1
                if res.exception is not None and not isinstance(res.exception, SystemExit):
                    out["bad"].append({"kind": "command-raises", "cmd": cmd, "layout": layout, "error": repr(res.exception)[:200]})
                    continue
                gone = {i for i, ident in enumerate(ids) if not (d / "jobs" / TASK / ident).exists()}
                want = expected_deleted(layout, cmd)
                if gone != want:
                    extra, missing = sorted(gone - want), sorted(want - gone)
                    what = "deleted-unselected" if extra else "not-deleted"
                    running = any(layout[i]["state"] in ("running", "failed+running") for i in extra)
                    out["bad"].append({"kind": what + (":running-job" if running else ""), "cmd": cmd, "layout": layout,
                                       "deleted": sorted(gone), "expected": sorted(want)})
                if cmd["cmd"] == "orphans" and not cmd["clean"]:
                    listed = {l.strip().split("/")[-1] for l in res.output.splitlines() if re.search(r"/[0-9a-f]{64}$", l.strip())}
                    want_listed = {ids[i] for i, j in enumerate(layout) if j["member"] == "none"}
                    if listed != want_listed:
                        out["bad"].append({"kind": "orphans-listing", "cmd": cmd, "layout": layout, "listed": sorted(x[-4:] for x in listed), "expected": sorted(x[-4:] for x in want_listed)})
            finally:
                shutil.rmtree(d, ignore_errors=True)
            # ---- the workspace changes while `jobs clean --perform` runs: a scheduler launches a failed job again (pid file of a live
            # process, failure marker removed) between the processing of two jobs - every failed job x every such moment.  A job
            # whose directory still exists at that moment is running from then on and must still be there at the end.
            if cmd["cmd"] == "clean" and cmd["perform"]:
                failed = [i for i, j in enumerate(layout) if j["state"] == "failed"]
                for victim in failed:
                    for moment in range(len(layout) + 1):
                        d = Path(tempfile.mkdtemp(prefix="c19r", dir=os.environ.get("VERIF_SCRATCH", "/dev/shm")))
                        try:
                            ids = build_layout(d, layout)
                            vp = d / "jobs" / TASK / ids[victim]
                            state = {"relaunched": False}

                            def relaunch():
                                if vp.is_dir() and not state["relaunched"]:
                                    (vp / "task.pid").write_text(json.dumps({"type": "local", "pid": os.getpid()}))
                                    (vp / "task.failed").unlink()
                                    state["relaunched"] = True

                            import pathlib
                            orig_glob = pathlib.Path.glob

                            def glob(self, pattern, *a, **k):
                                if str(self) == str(d) and pattern == "jobs/*/*":
                                    def gen():
                                        n = 0
                                        for item in orig_glob(self, pattern, *a, **k):
                                            if n == moment:
                                                relaunch()
                                            n += 1
                                            yield item
                                        if n == moment:
                                            relaunch()
                                    return gen()
                                return orig_glob(self, pattern, *a, **k)

                            pathlib.Path.glob = glob
                            try:
                                args = ["jobs", "--workdir", str(d), "clean"] + (["--filter", cmd["filter"]] if cmd["filter"] else []) + ["--perform"]
                                res = runner.invoke(cli, args)
                            finally:
                                pathlib.Path.glob = orig_glob
                            out["n"] += 1
                            out["relaunch"] = out.get("relaunch", 0) + 1
                            if res.exception is not None and not isinstance(res.exception, SystemExit):
                                out["bad"].append({"kind": "command-raises:relaunch", "cmd": cmd, "layout": layout, "error": repr(res.exception)[:200]})
                                continue
                            if state["relaunched"] and not vp.exists():
                                out["bad"].append({"kind": "deleted-unselected:running-job:relaunched", "cmd": cmd, "layout": layout, "victim": victim, "moment": moment})
                            gone = {i for i, ident in enumerate(ids) if not (d / "jobs" / TASK / ident).exists()} - {victim}
                            want = expected_deleted(layout, cmd) - {victim}
                            if gone != want:
                                out["bad"].append({"kind": "other-jobs-differ:relaunched", "cmd": cmd, "layout": layout, "victim": victim, "moment": moment,
                                                   "deleted": sorted(gone), "expected": sorted(want)})
                        finally:
                            shutil.rmtree(d, ignore_errors=True)
    return out


def run(ctx):
    res = Result(ctx, LEVEL)
    E = expressions(ctx.quick)
    L = layouts(ctx.quick)
    chunks = [E[i::32] for i in range(32)]
    lchunks = [L[i::32] for i in range(32)]
    with Pool(seeds=[(ctx.seed + i) % 4096 for i in range(16)]) as pool:
        fouts = pool.map("engines.c19:eval_filters", [{"exprs": c} for c in chunks])
        louts = pool.map("engines.c19:eval_layouts", [{"layouts": c} for c in lchunks])
    n = 0
    for o in fouts:
        n += o["n"]
        for b in o["bad"]:
            ops = "+".join(sorted(set(b["ops"]) & {"in", "notin", "re"}) or b["ops"])
            res.violation(f"filter:{b['kind']}:{ops}", f"filter {b['expr']!r}: {b.get('error') or ''} {('on ' + str(b.get('env')) + ' gives ' + str(b.get('got')) + ', documented meaning ' + str(b.get('want'))) if 'got' in b else ''}",
                          {"part": "filter", "bad": b})
    m = 0
    for o in louts:
        m += o["n"]
        for b in o["bad"]:
            c = b["cmd"]
            cname = c["cmd"] + ("+filter" if c.get("filter") else "") + ("+perform" if c.get("perform") else "") + ("+clean" if c.get("clean") else "")
            res.violation(f"{cname}:{b['kind']}", f"{c} on layout {b['layout']}: {b}", {"part": "layout", "bad": b})
    res.coverage = {
        "evaluations": n + m,
        "distinct_nontrivial": len(E) + len(L),
        "rule": "(a) every filter expression (atoms: =, = with single quotes, var = var, in, not in, ~ over tags model/mode, @state, @name; pure and / or "
                "chains of 2 and 3 atoms) compiled by the real createFilter and evaluated on 36 real job directories (tags absent/a/b x state markers), "
                "against a reference evaluator; (b) every layout of two jobs (marker state x tag x membership in jobs / jobs.bak / none) x commands "
                "{jobs clean +-filter +-perform, orphans +-clean} run through the real click CLI (and, for `jobs clean --perform`, again with a failed job launched again by a scheduler between the processing of any two jobs - every failed job x every moment; that job must survive); deleted directories compared with the expected deletion "
                "set; distinct_nontrivial = expressions + layouts",
        "samples": clip_samples([E[40][0], E[-1][0], L[5]]),
        "exhaustive": True, "filter_expressions": len(E), "filter_evaluations": n, "layouts": len(L), "cli_invocations": m,
    }
    res.assumptions = ["mixed and/or chains without parentheses have no documented precedence and are not enumerated",
                       "regular expressions are chosen such that match and search agree on the value alphabet",
                       "a job is 'running' when its pid file names a live process; `jobs kill` is outside the statement"]
    return res


def replay(ctx, payload):
    b = payload["bad"]
    if payload["part"] == "filter":
        from experimaestro.cli.filter import createFilter
        print(b)
        try:
            f = createFilter(b["expr"])
            for info, env in filter_world():
                if env == b.get("env"):
                    print("filter returns", f(info), "on", env)
        except Exception as e:  # noqa
            print("raises", repr(e))
    else:
        print(eval_layouts({"layouts": [b["layout"]]}))
    return 0
