"""Engine W, part 1: the virtual world.

A *hub* owns every thread of control of an execution as a greenlet ("actor"): user scripts, asyncio loops (one
callback per step), helper threads, watchdog observers, virtual job processes.  Exactly one actor runs at a time and
control returns to the hub only at scheduling points.  A *schedule* is the vector of choice indices taken at the
scheduling points (index 0 = the default policy's choice); the explorer (explore.py) enumerates schedules.

Simulated operating-system pieces: processes (SimProc: pid + per-process module globals), POSIX record locks
(per-process ownership), inotify delivery to per-process observers, abrupt process death.
"""
from __future__ import annotations

import asyncio
import collections
import concurrent.futures
import gc
import os
import shutil
import sys
import tempfile
from asyncio import events
from pathlib import Path

import greenlet


class Nondeterminism(Exception):
    pass


class Horizon(Exception):
    pass


class SimProc:
    def __init__(self, pid, kind="scheduler"):
        self.pid = pid
        self.kind = kind
        self.alive = True
        self.globals = None          # values of PROC_GLOBALS while switched out
        self.watches = []            # (handler, path)
        self.queue = collections.deque()
        self.observer = None
        self.name = f"{kind}:{pid}"


class Actor:
    def __init__(self, hub, name, fn, proc, kind):
        self.hub, self.name, self.fn, self.proc, self.kind = hub, name, fn, proc, kind
        self.blocked = None
        self.dead = False
        self.exc = None
        self.running_loop = None
        self.seq = len(hub.actors)
        self.g = greenlet.greenlet(self._run, parent=hub.g)

    def _run(self):
        try:
            self.fn()
        except greenlet.GreenletExit:
            raise
        except BaseException as e:  # noqa
            self.exc = e
        finally:
            self.dead = True

    def enabled(self):
        return (not self.dead) and self.proc.alive and (self.blocked is None or self.blocked())


class World:
    """Everything that is per execution."""

    def __init__(self, root: Path, fine=False):
        self.root = str(root)
        self.fine = fine
        self.iplocks = {}            # (device, inode) of a lock file -> owning simulated pid
        self.token_reads = 0
        self.fault = None
        self.ipfds = {}              # (pid, path) -> [(descriptor, key)]: lock files a process has open
        self.next_pid = 1000
        self.events = []             # observation log
        self.procs = {}              # vpid -> VProcess
        self.simprocs = []
        self.jobs = []               # Job objects seen (state descriptor)
        self.xps = []                # experiment objects entered
        self.tokens = []             # (proc, token) created
        self.depseq = 0
        self.dead_mode = False
        self.markers = set()         # marker / token files currently present (maintained from the file operations)


class DeadHub:
    """Stands in for the hub while an execution is torn down: whatever the unwinding code tries, nothing happens."""
    current = None
    actors = ()

    def block_on(self, pred):
        raise greenlet.GreenletExit()

    def yield_point(self):
        return

    def spawn(self, *a, **k):
        class _A:
            dead = True
        return _A()


HUB = None      # current hub
W = None        # current world


def current_proc():
    return HUB.current.proc if HUB is not None and HUB.current is not None else None


def _dead():
    return W is None or W.dead_mode


POLICIES = ("FIFO", "LIFO", "JOBS")


class Hub:
    def __init__(self, schedule=None, policy="FIFO", max_steps=20000, kill=None, on_step=None, expect_widths=None):
        """schedule: {step index: choice}; kill: (step, victim pid, restart callable) or None."""
        self.g = greenlet.getcurrent()
        self.actors = []
        self.current = None
        self.schedule = dict(schedule or {})
        self.policy = policy
        self.widths = []
        self.chosen = []
        self.steps = 0
        self.max_steps = max_steps
        self.kill = kill
        self.killed = False
        self.on_step = on_step
        self.expect_widths = expect_widths
        self.proc_globals = []
        self.demoted = []

    def spawn(self, name, fn, proc=None, kind="thread"):
        a = Actor(self, name, fn, proc or self.current.proc, kind)
        self.actors.append(a)
        return a

    # -- called from actors
    def yield_point(self):
        self.g.switch()

    def block_on(self, pred):
        me = self.current
        while not pred():
            me.blocked = pred
            self.g.switch()
        me.blocked = None

    # -- policies: canonical order of the enabled actors; index 0 is the default choice
    def order(self, en):
        if self.policy == "FIFO":
            en = sorted(en, key=lambda a: a.seq)
            if self.current in en:
                en.remove(self.current)
                en.insert(0, self.current)
        elif self.policy == "LIFO":
            en = sorted(en, key=lambda a: -a.seq)
        elif self.policy == "JOBS":
            en = sorted(en, key=lambda a: (0 if a.kind == "job" else 1, a.seq))
        elif self.policy.startswith("P:"):
            # priority by actor kind, e.g. "P:loop,thread,job,main,observer" starves the observers (late notifications)
            rank = {k: i for i, k in enumerate(self.policy[2:].split(","))}
            en = sorted(en, key=lambda a: (rank.get(a.kind, 99), a.seq))
        elif self.policy.startswith("Q:"):
            # priority by simulated scheduler process ("process 2 is fast, process 1 is slow"), job processes last or
            # first: "Q:2,1,job" / "Q:job,1,2"; observers of a process rank with it unless "obs" is listed
            order = self.policy[2:].split(",")
            rank = {k: i for i, k in enumerate(order)}

            def key(a):
                if a.kind == "job":
                    return (rank.get("job", 50), a.seq)
                if a.kind == "observer" and "obs" in rank:
                    return (rank["obs"], a.seq)
                return (rank.get(str(a.proc.pid), 60), a.seq)
            en = sorted(en, key=key)
        else:
            raise KeyError(self.policy)
        if self.demoted:
            # demoted actors (schedule choice "D") run only when nothing else can; fairness: a demotion ends after DEMOTE_LIMIT
            # steps (executions are a few hundred steps long, so the limit only matters when the other actors spin, e.g. a
            # retry loop that waits for something only the demoted actor can do)
            self.demoted = [(a, t) for (a, t) in self.demoted if self.steps - t < DEMOTE_LIMIT]
            dem = [a for (a, t) in self.demoted]
            en = [a for a in en if a not in dem] + [a for a in en if a in dem]
        return en

    def switch_in(self, a):
        self.current = a
        a.blocked = None
        for (o, attr), v in zip(PROC_GLOBALS, a.proc.globals):
            setattr(o, attr, v)
        events._set_running_loop(a.running_loop)

    def switch_out(self, a):
        a.running_loop = events._get_running_loop()
        events._set_running_loop(None)
        a.proc.globals = [getattr(o, attr) for (o, attr) in PROC_GLOBALS]

    def do_kill(self):
        step, pid, restart = self.kill
        self.killed = True
        if isinstance(pid, str):
            # "job:<name>": the (first live) job process of that name dies abruptly - no marker, no cleanup
            name = pid.split(":", 1)[1]
            vp = next((v for v in W.procs.values() if not v.exited and v.name == name), None)
            if vp is not None:
                vp.kill()
                W.events.append(("KILLJOB", name, vp.vpid, step))
            self.current = None
            return
        victim = next(p for p in W.simprocs if p.pid == pid)
        victim.alive = False
        PosixLockTable.drop_all(victim.pid)
        W.events.append(("KILL", victim.pid, step))
        self.current = None
        if restart:
            restart(self)

    def run(self):
        while True:
            if self.kill is not None and not self.killed and len(self.widths) == self.kill[0]:
                self.do_kill()
            en = [a for a in self.actors if a.enabled()]
            if not en:
                if self.kill is not None and not self.killed:
                    # the run ended before the kill point: nothing to kill
                    self.killed = True
                return
            en = self.order(en)
            i = len(self.widths)
            c = self.schedule.get(i, 0)
            if c == "D":
                # "long preemption": the actor the policy would run now is descheduled until nothing else is enabled
                # (one deviation; what a preemption means under a non-preemptive scheduler, CHESS-style)
                if len(en) < 2:
                    raise Nondeterminism(f"step {i}: schedule demotes the default actor but it is the only enabled one")
                self.demoted.append((en[0], self.steps))
                en = en[1:] + en[:1]
                c = 0
            if c >= len(en):
                raise Nondeterminism(f"step {i}: schedule asks for choice {c} but only {len(en)} actors are enabled")
            if self.expect_widths is not None and i < len(self.expect_widths) and self.expect_widths[i] != len(en):
                raise Nondeterminism(f"step {i}: {len(en)} enabled actors, the recording run had {self.expect_widths[i]}")
            self.widths.append(len(en))
            a = en[c]
            self.chosen.append(a.name)
            self.switch_in(a)
            a.g.switch()
            self.switch_out(a)
            self.steps += 1
            if self.on_step is not None:
                self.on_step(a)
            if self.steps > self.max_steps:
                raise Horizon(f"more than {self.max_steps} steps")


# ---------------------------------------------------------------------------------------------- virtual asyncio loop
class VLoop(asyncio.BaseEventLoop):
    def __init__(self):
        super().__init__()
        self._vtime = 0.0

    def time(self):
        return self._vtime

    def call_soon_threadsafe(self, cb, *args, context=None):
        return self.call_soon(cb, *args, context=context)

    def _write_to_self(self):
        pass

    def _process_events(self, ev):
        pass

    def stop(self):
        self._vstopped = True

    def _check_thread(self):
        pass

    def run_forever(self):
        """The real SchedulerCentral.run() calls this from the actor that stands for the scheduler thread.  Like BaseEventLoop:
        the callbacks that are ready are run as one batch, and a stop() is honoured at the end of a batch; stop() called from
        another thread sets the flag but does not wake the loop up (it is not thread-safe) - the loop sleeps until a callback
        arrives (call_soon_threadsafe)."""
        self._check_closed()
        while True:
            HUB.block_on(lambda: len(self._ready) > 0)
            for _ in range(len(self._ready)):
                if not self._ready:
                    break
                h = self._ready.popleft()
                if not h._cancelled:
                    events._set_running_loop(self)
                    try:
                        h._run()
                    finally:
                        events._set_running_loop(None)
                HUB.yield_point()
            if getattr(self, "_vstopped", False):
                self._vstopped = False
                return

    actor_body = run_forever


class VThread:
    """threading.Thread replacement: the target runs as an actor of the creating process."""

    def __init__(self, group=None, target=None, name=None, args=(), kwargs=None, daemon=None):
        self.target, self.args, self.kwargs, self.name = target, args, kwargs or {}, name
        self.daemon = daemon
        self._actor = None

    def start(self):
        self._actor = HUB.spawn(f"thread:{self.name}", lambda: self.target(*self.args, **self.kwargs), kind="thread")

    def join(self, timeout=None):
        HUB.block_on(lambda: self._actor.dead)

    def is_alive(self):
        return self._actor is not None and not self._actor.dead


DEMOTE_LIMIT = 2500


class VLock:
    """threading.Lock replacement (a real lock would wedge the single OS thread)."""

    def __init__(self):
        self.owner = None
        self.waiters = 0

    def acquire(self, blocking=True, timeout=-1):
        if _dead():
            return True
        if W.fine is True and HUB.current is not None:
            # a synchronisation operation of a real thread is a point where another thread may run first
            HUB.yield_point()
        if self.owner is not None:
            if not blocking:
                return False
            self.waiters += 1
            try:
                HUB.block_on(lambda: self.owner is None)
            finally:
                self.waiters -= 1
        self.owner = HUB.current
        return True

    def release(self):
        self.owner = None
        if self.waiters > 0 and not _dead() and W is not None and W.fine is True and HUB.current is not None:
            # handing a lock over to a thread that was waiting for it: the waiter may run before the releasing thread goes on
            HUB.yield_point()

    def __enter__(self):
        self.acquire()
        return self

    def __exit__(self, *a):
        self.release()

    def locked(self):
        return self.owner is not None


class VEvent:
    """threading.Event replacement."""

    def __init__(self):
        self._flag = False

    def set(self):
        self._flag = True

    def clear(self):
        self._flag = False

    def is_set(self):
        return self._flag

    def wait(self, timeout=None):
        if _dead():
            return True
        HUB.block_on(lambda: self._flag)
        return True


class ThreadingShim:
    Lock = VLock
    Thread = VThread
    Event = VEvent

    def __getattr__(self, k):
        import threading
        return getattr(threading, k)


class VCFuture(concurrent.futures.Future):
    def result(self, timeout=None):
        HUB.block_on(self.done)
        return super().result(0)


def v_run_coroutine_threadsafe(coro, loop):
    future = VCFuture()

    def callback():
        try:
            asyncio.futures._chain_future(asyncio.ensure_future(coro, loop=loop), future)
        except BaseException as exc:  # noqa
            if future.set_running_or_notify_cancel():
                future.set_exception(exc)
            raise

    loop.call_soon_threadsafe(callback)
    return future


# ---------------------------------------------------------------------------------------------- POSIX record locks
class PosixLockTable:
    """(device, inode) of the lock file -> owning pid.  A lock belongs to the *file* a process has opened, not to its path: a process that
    waits for a lock keeps the file open, so when the path is unlinked and created again a newcomer locks another file (fasteners opens
    the file once, then polls lockf on that descriptor).  Same process re-acquires freely; release only drops the caller's own lock;
    death drops all.  W.ipfds: (pid, path) -> [(descriptor kept open, key), ...]"""

    @staticmethod
    def open(path, pid):
        Path(path).parent.mkdir(parents=True, exist_ok=True)
        fd = os.open(path, os.O_RDWR | os.O_CREAT, 0o666)
        st = os.fstat(fd)
        key = (st.st_dev, st.st_ino)
        W.ipfds.setdefault((pid, path), []).append((fd, key))
        return key

    @staticmethod
    def try_acquire(key, pid):
        o = W.iplocks.get(key)
        if o is None or o == pid:
            W.iplocks[key] = pid
            return True
        return False

    @staticmethod
    def close(path, pid, unlock=True):
        """closes the descriptor opened last for this path by this process; unlock: gives up the process's lock on that file"""
        lst = W.ipfds.get((pid, path))
        if not lst:
            return
        fd, key = lst.pop()
        if not lst:
            del W.ipfds[(pid, path)]
        try:
            os.close(fd)
        except OSError:
            pass
        if unlock and W.iplocks.get(key) == pid:
            del W.iplocks[key]

    @staticmethod
    def drop_all(pid):
        """process death"""
        for key, owner in list(W.iplocks.items()):
            if owner == pid:
                del W.iplocks[key]
        for (p, path), lst in list(W.ipfds.items()):
            if p == pid:
                for fd, _ in lst:
                    try:
                        os.close(fd)
                    except OSError:
                        pass
                del W.ipfds[(p, path)]

    @staticmethod
    def close_all(world):
        for lst in world.ipfds.values():
            for fd, _ in lst:
                try:
                    os.close(fd)
                except OSError:
                    pass
        world.ipfds.clear()


def fine_point(path):
    """Is a visible operation on `path` a scheduling point?  fine=True: always; fine="token": only operations on token
    directories (token files, token.info, token.lock) - the other files of such scenarios belong to one process only."""
    f = W.fine
    if f is True:
        return True
    if f == "token":
        p = str(path)
        return "/tokens/" in p
    return False


def ip_acquire(path, blocking=True):
    path = os.fsdecode(path) if isinstance(path, bytes) else str(path)
    if not os.path.isabs(path):
        raise RuntimeError(f"harness: relative lock path {path!r}")
    if _dead() or current_proc() is None:
        raise greenlet.GreenletExit()
    pid = current_proc().pid
    key = PosixLockTable.open(path, pid)
    if not PosixLockTable.try_acquire(key, pid):
        if not blocking:
            PosixLockTable.close(path, pid, unlock=False)
            return False
        HUB.block_on(lambda: W.iplocks.get(key) in (None, pid))
        W.iplocks[key] = pid
    if fine_point(path):
        W.events.append(("fs", pid, "lock", os.path.basename(path)))
        HUB.yield_point()
    return True


def ip_release(path):
    path = os.fsdecode(path) if isinstance(path, bytes) else str(path)
    if _dead():
        return
    p = current_proc()
    if p is None or not p.alive:
        return
    PosixLockTable.close(path, p.pid)
    if fine_point(path):
        W.events.append(("fs", p.pid, "unlock", os.path.basename(path)))
        HUB.yield_point()


class VFastenersLock:
    """fasteners.InterProcessLock replacement"""

    def __init__(self, path, *a, **k):
        self.path = str(path)
        self.acquired = False

    def acquire(self, blocking=True, delay=0.01, max_delay=0.1, timeout=None):
        ok = ip_acquire(self.path, blocking=blocking)
        self.acquired = ok
        return ok

    def release(self):
        ip_release(self.path)
        self.acquired = False

    def __enter__(self):
        self.acquire()
        return self

    def __exit__(self, *a):
        self.release()

    def exists(self):
        return os.path.exists(self.path)


class VFasteners:
    InterProcessLock = VFastenersLock

    def __getattr__(self, k):
        import fasteners
        return getattr(fasteners, k)


# ---------------------------------------------------------------------------------------------- files: scheduling points + virtual inotify
def fs_event(kind, path):
    """A visible file operation by the current actor: delivered to every watching process; scheduling point when fine."""
    if HUB is None or HUB.current is None or W is None or W.dead_mode:
        return
    p = str(path)
    if not p.startswith(W.root):
        return
    proc = HUB.current.proc
    if not proc.alive:
        return
    from watchdog.events import FileCreatedEvent, FileDeletedEvent, FileModifiedEvent
    cls = {"create": FileCreatedEvent, "write": FileModifiedEvent, "truncate": FileModifiedEvent, "unlink": FileDeletedEvent}.get(kind)
    if cls is not None:
        for sp in W.simprocs:
            if not sp.alive:
                continue
            for handler, wpath in sp.watches:
                if p.startswith(wpath + "/"):
                    sp.queue.append((handler, cls(p)))
    if p.endswith((".token", ".done", ".failed", ".pid")):
        if kind == "unlink":
            W.markers.discard(p)
        elif kind in ("create", "write", "truncate"):
            W.markers.add(p)
    if p.endswith(".token"):
        W.events.append(("tok", proc.pid, kind, os.path.basename(os.path.dirname(p)), os.path.basename(p)[:8]))
    if fine_point(p):
        W.events.append(("fs", proc.pid, kind, os.path.basename(p), os.path.basename(os.path.dirname(p))[:8]))
        HUB.yield_point()


_orig = {}


class FileProxy:
    def __init__(self, f, path):
        self.f, self.path = f, path
        self.wrote = False

    def __enter__(self):
        return self

    def __exit__(self, *a):
        self.close()

    def write(self, s):
        self.wrote = True
        return self.f.write(s)

    def writelines(self, ls):
        self.wrote = True
        return self.f.writelines(ls)

    def close(self):
        if not self.f.closed:
            self.f.close()
            posix_close(self.path)
            if self.wrote:
                fs_event("write", self.path)

    def __getattr__(self, k):
        return getattr(self.f, k)


def posix_close(path):
    """POSIX record locks (fcntl.lockf, what fasteners uses): when a process closes ANY descriptor of a file, the locks it
    holds on that file are dropped (conformance: engines/conformance.py, operation "rw")."""
    if W is None or HUB is None or HUB.current is None:
        return
    p = str(path)
    proc = current_proc()
    if proc is None:
        return
    try:
        st = os.stat(p)
    except OSError:
        return
    key = (st.st_dev, st.st_ino)
    if W.iplocks.get(key) == proc.pid:
        del W.iplocks[key]
        W.events.append(("fs", proc.pid, "lock-dropped-by-close", os.path.basename(p)))


def _tracked(path):
    return W is not None and HUB is not None and HUB.current is not None and str(path).startswith(W.root) and not W.dead_mode


def _refuse_if_dead():
    """A killed process does nothing any more (its greenlets are abandoned, but may be unwound at collection time)."""
    p = current_proc()
    if p is not None and not p.alive:
        raise greenlet.GreenletExit()


NEXT_FLAGS = {}       # world flags of the next execution (coarse_mtime), set by explore.execute
NEXT_FAULT = None     # ("token-read", n): the n-th read of a token file in the next world fails with EIO (set by explore.execute)


def v_open(self, mode="r", *a, **k):
    if not _tracked(self) or not any(c in mode for c in "wax+"):
        if W is not None and str(self).endswith(".token") and _tracked(self):
            # fault dimension: a read of a token file (another process's, on a shared file system) fails with an I/O error
            W.token_reads += 1
            if W.fault == ("token-read", W.token_reads):
                import errno
                W.events.append(("FAULT", "token-read", W.token_reads, os.path.basename(str(self))[:8]))
                raise OSError(errno.EIO, "Input/output error", str(self))
        return _orig["open"](self, mode, *a, **k)
    _refuse_if_dead()
    existed = os.path.exists(self)
    f = _orig["open"](self, mode, *a, **k)
    if "w" in mode:
        fs_event("truncate" if existed else "create", self)
    elif not existed:
        fs_event("create", self)
    return FileProxy(f, self)


def v_write_text(self, data, *a, **k):
    if not _tracked(self):
        return _orig["write_text"](self, data, *a, **k)
    with v_open(self, "w") as f:
        return f.write(data)


def v_touch(self, *a, **k):
    if not _tracked(self):
        return _orig["touch"](self, *a, **k)
    _refuse_if_dead()
    existed = os.path.exists(self)
    r = _orig["touch"](self, *a, **k)
    fs_event("write" if existed else "create", self)
    return r


def v_unlink(self, *a, **k):
    if not _tracked(self):
        return _orig["unlink"](self, *a, **k)
    _refuse_if_dead()
    r = _orig["unlink"](self, *a, **k)
    fs_event("unlink", self)
    return r


def v_rename(self, target, *a, **k):
    if not _tracked(self):
        return _orig["rename"](self, target, *a, **k)
    _refuse_if_dead()
    r = _orig["rename"](self, target, *a, **k)
    if str(target).endswith((".pid", ".done", ".failed", ".token")):
        W.markers.add(str(target))
    fs_event("rename", self)
    return r


def v_replace(self, target, *a, **k):
    if not _tracked(self):
        return _orig["replace"](self, target, *a, **k)
    _refuse_if_dead()
    r = _orig["replace"](self, target, *a, **k)
    if str(target).endswith((".pid", ".done", ".failed", ".token")):
        W.markers.add(str(target))
    fs_event("rename", self)
    return r


def v_symlink_to(self, target, *a, **k):
    if not _tracked(self):
        return _orig["symlink_to"](self, target, *a, **k)
    _refuse_if_dead()
    r = _orig["symlink_to"](self, target, *a, **k)
    fs_event("symlink", self)
    return r


def v_mkdir(self, *a, **k):
    if not _tracked(self):
        return _orig["mkdir"](self, *a, **k)
    _refuse_if_dead()
    existed = os.path.isdir(self)
    r = _orig["mkdir"](self, *a, **k)
    if not existed and fine_point(self):
        fs_event("mkdir", self)
    return r


def v_rmtree(path, *a, **k):
    if not _tracked(path):
        return _orig["rmtree"](path, *a, **k)
    _refuse_if_dead()
    r = _orig["rmtree"](path, *a, **k)
    fs_event("rmtree", path)
    return r


def v_read_text(self, *a, **k):
    """TokenFile.watch() polls the pid file in a spin loop (`while s == "": s = pidpath.read_text()`): the wait is made
    visible - the reader blocks until the file has content or is gone - otherwise the explorer would never get control back."""
    r = _orig["read_text"](self, *a, **k)
    if _tracked(self):
        posix_close(self)
    if r == "" and _tracked(self) and str(self).endswith(".pid") and sys._getframe(1).f_code.co_filename.endswith("tokens.py"):
        p = str(self)
        W.events.append(("spin", current_proc().pid, os.path.basename(p)))

        def ready():
            try:
                return os.path.getsize(p) > 0
            except OSError:
                return True
        HUB.block_on(ready)
        return _orig["read_text"](self, *a, **k)
    return r


def install_fs():
    import pathlib
    if _orig:
        return
    _orig["read_text"] = pathlib.Path.read_text
    pathlib.Path.read_text = v_read_text
    for name, fn in (("open", v_open), ("write_text", v_write_text), ("touch", v_touch), ("unlink", v_unlink),
                     ("rename", v_rename), ("replace", v_replace), ("symlink_to", v_symlink_to), ("mkdir", v_mkdir)):
        _orig[name] = getattr(pathlib.Path, name)
        setattr(pathlib.Path, name, fn)
    _orig["rmtree"] = shutil.rmtree


class VIPCom:
    """ipcom() replacement: per-process observer actor fed by fs_event()."""

    def fswatch(self, handler, path, recursive=False):
        proc = current_proc()
        proc.watches.append((handler, str(Path(path).absolute())))
        if proc.observer is None:
            def observer():
                while True:
                    HUB.block_on(lambda: len(proc.queue) > 0)
                    h, ev = proc.queue.popleft()
                    # an exception escaping a handler kills the observer for good (as it kills watchdog's thread)
                    h.dispatch(ev)
                    HUB.yield_point()
            proc.observer = HUB.spawn(f"observer:{proc.pid}", observer, proc=proc, kind="observer")
        return object()

    def fsunwatch(self, w):
        pass


# ---------------------------------------------------------------------------------------------- per-process module globals
PROC_GLOBALS = []


def fresh_globals():
    out = []
    for (o, attr) in PROC_GLOBALS:
        out.append({} if attr == "TOKENS" else None)
    return out


def new_simproc(kind="scheduler", pid=None):
    if pid is None:
        W.next_pid += 1
        pid = W.next_pid
    sp = SimProc(pid, kind)
    sp.globals = fresh_globals()
    W.simprocs.append(sp)
    return sp


# ---------------------------------------------------------------------------------------------- execution wrapper
def run_world(mains, schedule=None, policy="FIFO", fine=False, kill=None, max_steps=20000, on_step=None,
              expect_widths=None, keep_dir=False, prepare=None, at_end=None, root_override=None):
    """mains: list of callables(world_dir: Path, result: dict, proc: SimProc), one simulated scheduler process each.
    Returns (result, hub, world).  The working directory is removed unless keep_dir."""
    global HUB, W
    if root_override is not None:
        wd = Path(root_override)
        keep_dir = True
    else:
        wd = Path(tempfile.mkdtemp(prefix="vw", dir=os.environ.get("VERIF_SCRATCH", "/dev/shm")))
    # "<policy>+rev": sets of dependencies / dependents are iterated in reverse creation order (the real sets are ordered by
    # object address, i.e. arbitrarily: both orders are part of the explored space)
    deporder = "fwd"
    if policy.endswith("+rev"):
        policy, deporder = policy[:-4], "rev"
    hub = Hub(schedule, policy, max_steps, kill, on_step, expect_widths)
    world = World(wd, fine)
    global NEXT_FAULT, NEXT_FLAGS
    world.fault, NEXT_FAULT = NEXT_FAULT, None
    world.coarse_mtime = bool(NEXT_FLAGS.get("coarse_mtime"))
    NEXT_FLAGS = {}
    world.deporder = deporder
    HUB, W = hub, world
    result = {"main_exc": {}, "returned": []}
    err = None
    try:
        if prepare:
            prepare(wd)
        for i, script in enumerate(mains):
            proc = new_simproc("scheduler", pid=i + 1)

            def main(script=script, proc=proc):
                try:
                    script(wd, result, proc)
                    result["returned"].append(proc.pid)
                except greenlet.GreenletExit:
                    raise
                except BaseException as e:  # noqa
                    import traceback
                    result["main_exc"][proc.pid] = (type(e).__name__, str(e)[:300], traceback.format_exc()[-1500:])
            hub.spawn(f"main:{proc.pid}", main, proc=proc, kind="main")
        try:
            hub.run()
        except (Nondeterminism, Horizon) as e:
            err = e
        result["events"] = world.events
        result["widths"] = hub.widths
        result["token_reads"] = world.token_reads
        result["chosen"] = hub.chosen
        result["hung"] = sorted(a.name for a in hub.actors if not a.dead and a.proc.alive and a.kind in ("main", "job"))
        result["blocked"] = sorted(a.name for a in hub.actors if not a.dead and a.proc.alive and a.kind not in ("loop", "observer"))
        result["dead_actors"] = [(a.name, f"{type(a.exc).__name__}: {a.exc}"[:300]) for a in hub.actors
                                 if a.dead and a.exc is not None and a.proc.alive and a.kind != "main"]
        if err is not None:
            result["harness_error"] = f"{type(err).__name__}: {err}"
        if at_end is not None:
            at_end(result, hub, world)
    finally:
        # dead world first: abandoned greenlets / coroutines must not touch anything while they are unwound, and they
        # must be unwound *now* (not at some later garbage collection in the middle of another execution)
        world.dead_mode = True
        for p in world.simprocs:
            p.alive = False
        HUB = DeadHub()
        old_hook = sys.unraisablehook
        sys.unraisablehook = lambda *a: None
        try:
            for a in hub.actors:
                if not a.dead:
                    try:
                        a.g.throw(greenlet.GreenletExit)
                    except BaseException:  # noqa
                        pass
            events._set_running_loop(None)
            hub.actors.clear()
            hub.current = None
            hub.on_step = None
            hub.kill = None
            PosixLockTable.close_all(world)
            world.jobs.clear()
            world.xps.clear()
            world.tokens.clear()
            world.procs.clear()
            for p in world.simprocs:
                p.watches.clear()
                p.queue.clear()
                p.observer = None
                p.globals = None
            for (o, attr) in PROC_GLOBALS:
                setattr(o, attr, {} if attr == "TOKENS" else None)
            gc.collect()
        finally:
            sys.unraisablehook = old_hook
            events._set_running_loop(None)
            HUB, W = None, None
        if not keep_dir:
            (_orig.get("rmtree") or shutil.rmtree)(wd, ignore_errors=True)
    result["dir"] = str(wd)
    return result, hub, world
