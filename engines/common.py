"""Shared plumbing of the /verif checks: results, evidence, known findings, replays.

A check module exposes

    PROPERTY = "Cxx"
    LEVEL    = "exploration" | "fault_enumeration" | "model_checking"
    def run(ctx) -> Result
    def replay(ctx, payload) -> None      (prints the observation log)

`Result.violation(key, message, payload)` records one violating case; `key` is a
*stable description of what fails* (scenario + clause + witness, never a schedule)
and is what known_findings.txt is matched against.
"""
from __future__ import annotations

import hashlib
import json
import os
import re
import sys
import time
from pathlib import Path

VERIF = Path(__file__).resolve().parent.parent
REPO = Path(os.environ.get("VERIF_REPO", "/repo"))
EVIDENCE = Path(os.environ.get("VERIF_EVIDENCE_DIR") or VERIF / "evidence")   # (tools/matrix.sh keeps runs against seeded changes out of evidence/)
REPLAYS = VERIF / "replays"
KNOWN = VERIF / "known_findings.txt"
GUARD = "EXPERIMAESTRO_VERIF"
NCPU = int(os.environ.get("VERIF_JOBS", "0")) or min(16, os.cpu_count() or 1)


class HarnessError(Exception):
    """The harness itself is broken (seam missing, nondeterminism, environment drift): exit 2, no verdict."""


class Ctx:
    def __init__(self, prop: str, tier: str, seed: int):
        self.prop, self.tier, self.seed = prop, tier, seed
        self.t0 = time.time()

    @property
    def quick(self):
        return self.tier == "quick"

    def elapsed(self):
        return time.time() - self.t0


class Result:
    def __init__(self, ctx: Ctx, level: str):
        self.ctx, self.level = ctx, level
        self.coverage: dict = {}
        self.assumptions: list[str] = []
        self.violations: list[dict] = []
        self._vkeys: dict[str, int] = {}

    def violation(self, key: str, message: str, payload: dict):
        """One violating case.  Several cases with the same key are the same finding: the first
        payload is kept as its witness and the number of witnesses is counted."""
        if key in self._vkeys:
            self.violations[self._vkeys[key]]["count"] += 1
            return
        self._vkeys[key] = len(self.violations)
        self.violations.append({"key": key, "message": message, "payload": payload, "count": 1})


def load_known():
    """known_findings.txt:  `known: property=<id> key=<regex> :: <what fails>`  /  `fixed: property=<id> <commit> <what failed>`"""
    known = []
    if KNOWN.exists():
        for line in KNOWN.read_text().splitlines():
            line = line.strip()
            m = re.match(r"known:\s+property=(\S+)\s+key=(\S+)\s+::\s+(.*)$", line)
            if m:
                known.append((m.group(1), m.group(2), m.group(3)))
    return known


def canonical(o):
    return json.dumps(o, sort_keys=True, default=str)


def digest(o) -> str:
    return hashlib.sha256(canonical(o).encode()).hexdigest()[:12]


def finish(res: Result) -> int:
    ctx = res.ctx
    known = [(k, d) for (p, k, d) in load_known() if p == ctx.prop]
    new, printed_known = [], []
    for v in res.violations:
        hit = next(((k, d) for (k, d) in known if re.fullmatch(k, v["key"])), None)
        if hit:
            printed_known.append((hit, v))
        else:
            new.append(v)
    # one KNOWN-FINDING line per listed finding that was observed
    seen = set()
    for (k, d), v in printed_known:
        if k in seen:
            continue
        seen.add(k)
        n = sum(x["count"] for (kk, _), x in printed_known if kk == k)
        print(f"KNOWN-FINDING: property={ctx.prop} {d} [key={k}; {n} witness(es) this run; e.g. {v['message'][:200]}]")
    REPLAYS.mkdir(exist_ok=True)
    for v in new:
        path = REPLAYS / f"{ctx.prop}-{digest([v['key'], v['payload']])}.json"
        path.write_text(json.dumps({"property": ctx.prop, "key": v["key"], "message": v["message"],
                                    "payload": v["payload"], "tier": ctx.tier, "seed": ctx.seed}, indent=1, default=str))
        print(f"VIOLATION property={ctx.prop} replay={path}")
        print(f"  key={v['key']} witnesses={v['count']}\n  {v['message'][:1500]}")
    ev = {
        "property_id": ctx.prop,
        "tier": ctx.tier,
        "seed": ctx.seed,
        "level": res.level,
        "coverage": res.coverage,
        "assumptions": res.assumptions,
        "wall_s": round(ctx.elapsed(), 2),
        "violations": len(new),
        "known_findings_observed": sorted(seen),
    }
    EVIDENCE.mkdir(exist_ok=True)
    (EVIDENCE / f"{ctx.prop}.json").write_text(json.dumps(ev, indent=1, default=str) + "\n")
    cov = res.coverage
    summary = {k: cov[k] for k in ("evaluations", "distinct_nontrivial", "states", "transitions",
                                   "traces_validated_against_impl", "exhaustive") if k in cov}
    print(f"[{ctx.prop}] tier={ctx.tier} seed={ctx.seed} {summary} violations={len(new)} known={len(seen)} wall={ctx.elapsed():.1f}s")
    return 1 if new else 0


def clip_samples(samples, n=5, width=600):
    out = []
    for s in samples[:n]:
        t = canonical(s)
        out.append(s if len(t) <= width else t[:width] + "…")
    return out
