"""Reference model for Engine G.

Two independent oracles computed from a *description* (plain JSON, no experimaestro object involved):

  signature(G, label)  canonical, encoding-independent signature (what the documentation says matters)
  raw_id / full_id     the byte-level identifier re-implemented from docs/experiments/config.md and the byte
                       layout (tag bytes, fixed-width payloads, sorted names) - pins the actual values

Description (flat form):
  {"root": label,
   "nodes": {label: {"cls": <schema key>, "args": {name: value}, "meta": None|True|False,
                     "pre": [labels], "init": [labels], "tags": {...}, "output_of": label?}}}
values: int | float | str | bool | None | {"enum": NAME} | {"path": str} | {"ref": label} | list | {"dict": {k: value}}
"""
from __future__ import annotations

import hashlib
import struct

ENUM_QUALNAME = "universe.g.Color"


def F(name, kind, default=None, required=False, ignored=False, constant=False, generated=False):
    return dict(name=name, kind=kind, default=default, required=required, ignored=ignored or generated,
                constant=constant, generated=generated)


_LEAF = [
    F("i", "int", required=True),
    F("f", "float", 0.5),
    F("s", "str", "d"),
    F("b", "bool", False),
    F("e", "enum", {"enum": "RED"}),
    F("o", "opt:int"),
    F("on", "optd:int", 3),
    F("p", "path", {"path": "/x"}, ignored=True),
    F("m", "int", 0, ignored=True),
    F("opt", "str", "o", ignored=True),
    F("c", "int", 1, constant=True),
    F("gen", "genpath", generated=True),
]
_BOX = [
    F("child", "cfg:leaf", required=True),
    F("ochild", "opt:cfg:leaf"),
    F("mchild", "opt:cfg:leaf", ignored=True),
    F("lst", "list:cfg:leaf", []),
    F("dct", "dict:cfg:leaf", {"dict": {}}),
    F("li", "list:int", []),
    F("lli", "list:list:int", []),
    F("di", "dict:int", {"dict": {}}),
    F("ddi", "dict:dict:int", {"dict": {}}),
    F("dli", "dict:list:int", {"dict": {}}),
    F("ldi", "list:dict:int", []),
    F("ls", "list:str", []),
    F("lll", "nest:list:list:leaf", []),
    F("dll", "nest:dict:list:leaf", {"dict": {}}),
    F("ldl", "nest:list:dict:leaf", []),
    F("sa", "str", "d"),
    F("sb", "str", "d"),
    F("gen", "genpath", generated=True),
]
_JOB = [
    F("x", "int", 0),
    F("code", "int", 0, ignored=True),
    F("up", "opt:cfg:job"),
    F("ups", "list:cfg:job", []),
    F("upd", "dict:cfg:job", {"dict": {}}),
    F("oin", "opt:cfg:out"),
    F("h", "opt:cfg:holder"),
    F("cfg", "opt:cfg:box"),
    F("ring", "opt:cfg:ring"),
    F("out", "genpath", generated=True),
]
_JOBOUT = [F("x", "int", 0), F("code", "int", 0, ignored=True), F("up", "opt:cfg:job")]
_PRE = [F("k", "int", 0), F("leaf", "opt:cfg:leaf"), F("h", "opt:cfg:holder")]

SCHEMA = {
    "leaf": dict(tid="u.leaf", py="Leaf", fields=_LEAF),
    "leafx": dict(tid="u.leafx", py="Leafx", fields=_LEAF, isa="leaf"),
    "box": dict(tid="u.box", py="Box", fields=_BOX),
    "ring": dict(tid="u.ring", py="Ring", fields=[
        F("v", "int", 0), F("nxt", "opt:cfg:ring"), F("alt", "opt:cfg:ring"), F("box", "opt:cfg:box")]),
    "out": dict(tid="u.out", py="Out", fields=[F("v", "int", 0)]),
    "holder": dict(tid="u.holder", py="Holder", fields=[
        F("t", "opt:cfg:job"), F("o", "opt:cfg:out"), F("lt", "list:cfg:job", []), F("dt", "dict:cfg:job", {"dict": {}}),
        F("mt", "opt:cfg:job", ignored=True), F("inner", "opt:cfg:holder"), F("leaf", "opt:cfg:leaf")]),
    "job": dict(tid="u.job", py="Job", fields=_JOB, task=True),
    "jobout": dict(tid="u.jobout", py="JobOut", fields=_JOBOUT, task=True, outputs="out"),
    "jobx": dict(tid="u.jobx", py="JobX", fields=_JOB, task=True, outputs="out", isa="job"),
    "pre": dict(tid="u.pre", py="PreT", fields=_PRE, light=True),
    "init": dict(tid="u.init", py="InitT", fields=[F("k", "int", 0), F("h", "opt:cfg:holder")], light=True),
    # class-extension twins: same type identifier, extra defaulted / Meta / generated parameters
    "leaf_v2": dict(tid="u.leaf", py="LeafV2", twin_of="leaf", isa="leaf", fields=_LEAF + [
        F("a_new", "int", 7), F("n_meta", "int", 3, ignored=True), F("z_gen", "genpath", generated=True),
        F("n_list", "list:int", []), F("n_opt", "opt:cfg:leaf"), F("n_fl", "float", 0)]),
    "box_v2": dict(tid="u.box", py="BoxV2", twin_of="box", isa="box", fields=_BOX + [
        F("a_new", "str", "n"), F("n_dict", "dict:int", {"dict": {}}), F("sab", "str", "d")]),
    # deprecated twins: take the identifier of their replacement
    "leaf_old": dict(tid="u.leaf", py="LeafOld", fields=_LEAF, isa="leaf", deprecated_of="leaf", old_tid="u.leaf_old"),
    "box_old": dict(tid="u.box", py="BoxOld", fields=_BOX, isa="box", deprecated_of="box", old_tid="old.box"),
    "job_old": dict(tid="u.job", py="JobOld", fields=_JOB, task=True, isa="job", deprecated_of="job", old_tid="u.job_old"),
    "pre_old": dict(tid="u.pre", py="PreTOld", fields=_PRE, light=True, isa="pre", deprecated_of="pre", old_tid="u.pre_old"),
    "jobout_old": dict(tid="u.jobout", py="JobOutOld", fields=_JOBOUT, task=True, outputs="out", isa="jobout",
                       deprecated_of="jobout", old_tid="u.jobout_old"),
}


def isa(cls, target):
    while cls is not None:
        if cls == target:
            return True
        cls = SCHEMA[cls].get("isa")
    return False


# ---------------------------------------------------------------------------------------------- graph helpers

def is_ref(v):
    return isinstance(v, dict) and "ref" in v


def is_dictv(v):
    return isinstance(v, dict) and "dict" in v


def refs_in(v):
    """Labels referenced by a value, in order."""
    if is_ref(v):
        yield v["ref"]
    elif isinstance(v, list):
        for x in v:
            yield from refs_in(x)
    elif is_dictv(v):
        for k in sorted(v["dict"]):
            yield from refs_in(v["dict"][k])


def node_args(G, label):
    """Complete argument map of a node (explicit args, else schema default; generated excluded)."""
    n = G["nodes"][label]
    out = {}
    if "output_of" in n:
        t = G["nodes"][n["output_of"]]
        x = t["args"].get("x", 0)
        return {"v": x}
    for f in SCHEMA[n["cls"]]["fields"]:
        if f["generated"]:
            continue
        if f["name"] in n["args"]:
            out[f["name"]] = n["args"][f["name"]]
        elif f["constant"] or f["default"] is not None:
            out[f["name"]] = f["default"]
        else:
            out[f["name"]] = None
    return out


def node_meta(G, label):
    return G["nodes"][label].get("meta")


def reachable(G, label, cross_tasks=True):
    """Labels reachable from `label` through arguments (all of them, ignored ones included), pre-tasks,
    init tasks and the producing task of outputs - the walk of ConfigWalk(recurse_task=True)."""
    seen, order, stack = set(), [], [label]
    while stack:
        l = stack.pop()
        if l in seen:
            continue
        seen.add(l)
        order.append(l)
        n = G["nodes"][l]
        nxt = []
        if "output_of" in n:
            nxt.append(n["output_of"])
        else:
            for f in SCHEMA[n["cls"]]["fields"]:
                if f["name"] in n["args"]:
                    nxt.extend(refs_in(n["args"][f["name"]]))
        nxt.extend(n.get("pre", []))
        nxt.extend(n.get("init", []))
        stack.extend(reversed(nxt))
    return order


# ---------------------------------------------------------------------------------------------- byte encoder

def _strip_meta(G, v):
    if isinstance(v, list):
        return [x for x in v if not (is_ref(x) and node_meta(G, x["ref"]) is True)]
    if is_dictv(v):
        return {"dict": {k: x for k, x in v["dict"].items() if not (is_ref(x) and node_meta(G, x["ref"]) is True)}}
    return v


def _same(a, b):
    """Python-level equality of two described values (1 == 1.0 == True as in Python)."""
    if isinstance(a, list) and isinstance(b, list):
        return len(a) == len(b) and all(_same(x, y) for x, y in zip(a, b))
    if is_dictv(a) and is_dictv(b):
        return a["dict"].keys() == b["dict"].keys() and all(_same(a["dict"][k], b["dict"][k]) for k in a["dict"])
    if isinstance(a, dict) or isinstance(b, dict) or isinstance(a, list) or isinstance(b, list):
        return a == b
    return a == b


def _coerce(kind, v):
    if kind == "float" and isinstance(v, int) and not isinstance(v, bool):
        return float(v)
    if kind == "int" and isinstance(v, float) and v == int(v):
        return int(v)
    return v


class Encoder:
    def __init__(self, G):
        self.G = G

    def value(self, v, path):
        G = self.G
        if v is None:
            return b"\x06"
        if isinstance(v, bool):
            return b"\x01" + struct.pack("!q", int(v))
        if isinstance(v, float):
            return b"\x02" + struct.pack("!d", v)
        if isinstance(v, int):
            return b"\x01" + struct.pack("!q", v)
        if isinstance(v, str):
            return b"\x03" + v.encode("utf-8")
        if isinstance(v, list):
            vs = _strip_meta(G, v)
            return b"\x07" + struct.pack("!d", len(vs)) + b"".join(self.value(x, path) for x in vs)
        if isinstance(v, dict) and "enum" in v:
            return b"\x0a" + f"{ENUM_QUALNAME}:{v['enum']}".encode("utf-8")
        if is_dictv(v):
            items = sorted(_strip_meta(G, v)["dict"].items())
            return b"\x09" + b"".join(self.value(k, path) + self.value(x, path) for k, x in items)
        if is_ref(v):
            l = v["ref"]
            if l in path:
                return b"\x00\x0b" + struct.pack("!q", len(path) - path.index(l))
            return b"\x00" + self.raw(l, path)
        raise TypeError(f"cannot encode {v!r}")

    def raw(self, label, path=()):
        G = self.G
        n = G["nodes"][label]
        path = tuple(path) + (label,)
        out = b"\x00"
        if "output_of" in n:
            out += b"\x08" + self.value({"ref": n["output_of"]}, path)
            cls = SCHEMA[SCHEMA[G["nodes"][n["output_of"]]["cls"]]["outputs"]]
        else:
            cls = SCHEMA[n["cls"]]
        out += cls["tid"].encode("utf-8")
        args = node_args(G, label)
        for f in sorted(cls["fields"], key=lambda f: f["name"]):
            if f["generated"]:
                continue
            v = _coerce(f["kind"], args[f["name"]])
            is_cfg = is_ref(v)
            if f["ignored"] and not (is_cfg and node_meta(G, v["ref"]) is False):
                continue
            if not f["constant"]:
                if not f["required"] and f["default"] is None and v is None:
                    continue
                if f["default"] is not None and _same(f["default"], _strip_meta(G, v)):
                    continue
            if is_cfg and node_meta(G, v["ref"]) is True:
                continue
            out += self.value(f["name"], path) + b"\x05" + self.value(v, path)
        return hashlib.sha256(out).digest()

    def full(self, label, init=True):
        G = self.G
        n = G["nodes"][label]
        h = hashlib.sha256()
        h.update(self.raw(label))
        pre = []
        if n.get("init") and not init:
            # the init tasks are not attached (yet): what is only reachable through them is not part of the configuration
            H = {"root": G["root"], "nodes": dict(G["nodes"])}
            H["nodes"][label] = dict(n, init=[])
            reach = reachable(H, label)
        else:
            reach = reachable(G, label)
        for l in reach:
            pre.extend(G["nodes"][l].get("pre", []))
        # the implementation collects pre-task *objects* (one entry per distinct object)
        pre = list(dict.fromkeys(pre))
        for d in sorted(self.raw(p) for p in pre):
            h.update(d)
        if n.get("init") and init:
            h.update(b"\x0c")
            for l in n["init"]:
                h.update(self.raw(l))
        return h.digest()


def full_id(G, label=None, init=True):
    return Encoder(G).full(label or G["root"], init).hex()


def raw_id(G, label=None):
    return Encoder(G).raw(label or G["root"]).hex()


# ---------------------------------------------------------------------------------------------- canonical signature

def signature(G, label=None, full=True, init=True):
    """Canonical signature as a nested tuple (hashable, comparable).

    It contains: the type identifier; for a task output the signature of the producing task; the sorted
    (name, value) pairs of the parameters that take part in the signature (not ignored unless forced by
    meta=False, not generated, not equal to the default, not an unset optional; constants always; sub
    configurations flagged meta dropped, also inside lists and dicts); cycles as relative back references.
    With full=True: plus the multiset of pre-task signatures reachable and the sequence of init-task signatures.
    """
    label = label or G["root"]

    def val(v, path):
        if v is None:
            return ("none",)
        if isinstance(v, bool):
            return ("int", int(v))
        if isinstance(v, float):
            return ("float", v)
        if isinstance(v, int):
            return ("int", v)
        if isinstance(v, str):
            return ("str", v)
        if isinstance(v, list):
            return ("list", tuple(val(x, path) for x in _strip_meta(G, v)))
        if isinstance(v, dict) and "enum" in v:
            return ("enum", v["enum"])
        if is_dictv(v):
            return ("dict", tuple(sorted((k, val(x, path)) for k, x in _strip_meta(G, v)["dict"].items())))
        if is_ref(v):
            l = v["ref"]
            if l in path:
                return ("cycle", len(path) - path.index(l))
            return sig(l, path)
        raise TypeError(v)

    def sig(l, path):
        n = G["nodes"][l]
        path = tuple(path) + (l,)
        if "output_of" in n:
            task = val({"ref": n["output_of"]}, path)
            cls = SCHEMA[SCHEMA[G["nodes"][n["output_of"]]["cls"]]["outputs"]]
        else:
            task = None
            cls = SCHEMA[n["cls"]]
        args = node_args(G, l)
        items = []
        for f in cls["fields"]:
            if f["generated"]:
                continue
            v = _coerce(f["kind"], args[f["name"]])
            is_cfg = is_ref(v)
            if f["ignored"] and not (is_cfg and node_meta(G, v["ref"]) is False):
                continue
            if not f["constant"]:
                if v is None and f["default"] is None and not f["required"]:
                    continue
                if f["default"] is not None and _same(f["default"], _strip_meta(G, v)):
                    continue
            if is_cfg and node_meta(G, v["ref"]) is True:
                continue
            items.append((f["name"], val(v, path)))
        return ("obj", cls["tid"], task, tuple(sorted(items)))

    s = sig(label, ())
    if not full:
        return s
    pre = []
    n = G["nodes"][label]
    if n.get("init") and not init:
        H = {"root": G["root"], "nodes": dict(G["nodes"])}
        H["nodes"][label] = dict(n, init=[])
        reach = reachable(H, label)
    else:
        reach = reachable(G, label)
    for l in reach:
        pre.extend(G["nodes"][l].get("pre", []))
    pre = list(dict.fromkeys(pre))
    return ("full", s, tuple(sorted((sig(p, ()) for p in pre), key=repr)), tuple(sig(i, ()) for i in (n.get("init", []) if init else [])))


# ---------------------------------------------------------------------------------------------- schema consistency

def check_schema():
    """The hand-written schema must describe the universe classes (names, ignored/constant/generated flags, type ids)."""
    import universe.g as U
    problems = []
    for key, c in SCHEMA.items():
        cls = getattr(U, c["py"])
        xt = cls.__getxpmtype__()
        if str(xt.identifier) != c["tid"]:
            problems.append(f"{key}: type id {xt.identifier} != {c['tid']}")
        real = xt.arguments
        names = {f["name"] for f in c["fields"]}
        if set(real) != names:
            problems.append(f"{key}: fields {sorted(real)} != {sorted(names)}")
            continue
        for f in c["fields"]:
            a = real[f["name"]]
            flags = (bool(a.ignored), bool(a.constant), a.generator is not None, bool(a.required))
            want = (f["ignored"], f["constant"], f["generated"], f["required"] or f["generated"])
            if flags != want:
                problems.append(f"{key}.{f['name']}: (ignored, constant, generated, required) = {flags}, schema says {want}")
    return problems
