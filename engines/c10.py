"""C10 — job directory markers stay truthful whenever the job process dies (Engine K: explicit-state crash-point BFS)."""
from __future__ import annotations

import json

from .common import Result, clip_samples
from .pool import Pool

PROPERTY = "C10"
LEVEL = "fault_enumeration"
VARIANTS = [{"code": 0, "how": "exit"}, {"code": 3, "how": "exit"}, {"code": 0, "how": "raise"}]
SIGNALS = {9: "SIGKILL", 15: "SIGTERM", 2: "SIGINT", 1: "SIGHUP"}


def canon(st):
    return (st["done"], st["failed"], st["starts"] > st["ends"])


def source_state(c):
    done, failed, interrupted = c
    return {"done": done, "failed": failed, "starts": 1 if interrupted else 0, "ends": 0}


def run(ctx):
    res = Result(ctx, LEVEL)
    sigs = [9, 15, 2] if ctx.quick else [9, 15, 2, 1]
    transitions, launches = 0, 0
    states_seen = set()
    samples = []
    faults_seen = [0]
    with Pool(seeds=[0], init="engines.crash:worker_init") as pool:
        for variant in VARIANTS:
            vname = f"{variant['how']}{variant['code']}"
            ok_variant = variant["code"] == 0 and variant["how"] == "exit"
            seen = {(False, None, False)}
            frontier = [(False, None, False)]
            depth = 0
            while frontier:
                depth += 1
                # no-signal launches first: they give the number of traced line events from each state
                base_items = [{"variant": variant, "state": source_state(c), "k": 0, "sig": 9, "fault": 0} for c in frontier]
                base = pool.map("engines.crash:launch", base_items)
                launches += len(base)
                items, meta = [], []
                for c, b in zip(frontier, base):
                    S = source_state(c)
                    check(res, vname, ok_variant, S, b, 0, None, None)
                    transitions += 1
                    n = len(b.get("events", []))
                    if n == 0:
                        res.violation(f"no-events:{vname}", f"the no-signal launch from {S} reported no traced line", {"variant": variant, "state": S, "k": 0, "sig": 0})
                    body = {i + 1 for i, e in enumerate(b.get("events", [])) if e[2] == "execute"}
                    for k in range(1, n + 1):
                        for sig in sigs:
                            items.append({"variant": variant, "state": S, "k": k, "sig": sig})
                            meta.append((c, k in body, b["events"][k - 1]))
                    # the notification channel fails: the j-th call of TaskRunner into experimaestro.notifications raises - alone (the
                    # process then ends on its own), and (thorough) together with a signal at every traced line event
                    ncalls = len(b.get("notification_calls", []))
                    faults_seen[0] = max(faults_seen[0], ncalls)
                    for j in range(1, ncalls + 1):
                        items.append({"variant": variant, "state": S, "k": 0, "sig": 9, "fault": j})
                        meta.append((c, False, ("fault", j, b["notification_calls"][j - 1])))
                        if not ctx.quick:
                            for k in range(1, n + 1):
                                for sig in sigs[:3]:
                                    items.append({"variant": variant, "state": S, "k": k, "sig": sig, "fault": j})
                                    meta.append((c, k in body, b["events"][k - 1]))
                    if len(samples) < 3:
                        samples.append({"variant": vname, "state": S, "traced_line_events": n, "no_signal_result": b["state"], "exit": b["exit"]})
                outs = pool.map("engines.crash:launch", items)
                launches += len(outs)
                nxt = []
                for c, b in zip(frontier, base):
                    cc = canon(b["state"])
                    if cc not in seen:
                        seen.add(cc)
                        nxt.append(cc)
                for it, (c, in_body, ev), o in zip(items, meta, outs):
                    transitions += 1
                    check(res, vname, ok_variant, it["state"], o, it["k"], it["sig"], (in_body, ev), it.get("fault"))
                    cc = canon(o["state"])
                    if cc not in seen:
                        seen.add(cc)
                        nxt.append(cc)
                frontier = nxt
                if ctx.quick and depth >= 3:
                    break
            states_seen.update((vname,) + c for c in seen)
    res.coverage = {
        "evaluations": launches,
        "distinct_nontrivial": len(states_seen),
        "rule": "explicit-state BFS: a state is the canonical job directory (success marker, failure marker content, body interrupted); from every "
                "state the real generated job script is launched without signal and with SIGKILL / SIGTERM / SIGINT delivered at every traced line "
                "event of experimaestro/run.py, the generated script and the task body; new states are explored until none appears (quick: depth 3); "
                "three task variants (exit 0, exit 3, raise); from every state also with the notification channel failing (the j-th call of TaskRunner into "
                "experimaestro.notifications raises; thorough: combined with every signal at every line event); evaluations = launches of the real TaskRunner; distinct_nontrivial = distinct (variant, state)",
        "samples": clip_samples(samples),
        "exhaustive": True, "transitions": transitions, "signals": [SIGNALS[s] for s in sigs], "notification_fault_points": faults_seen[0],
        "state_list": sorted(map(str, states_seen)),
    }
    res.assumptions = ["the pid file is written by the scheduler before the child reaches TaskRunner.run (restored by the harness before every launch)",
                       "crash points are line events of run.py, the generated script and the task module; a signal between two lines is indistinguishable from one at the next line",
                       "children are forked from a worker that has imported experimaestro (fork server); they run the script with runpy and run atexit handlers as a fresh interpreter would"]
    return res


def check(res, vname, ok_variant, S, o, k, sig, where, fault=None):
    if fault:
        return check_fault(res, vname, ok_variant, S, o, k, sig, where, fault)
    S2 = o["state"]
    new_starts = S2["starts"] - S["starts"]
    new_ends = S2["ends"] - S["ends"]
    payload = {"variant": vname, "state": S, "k": k, "sig": sig, "result": o}
    signame = SIGNALS.get(sig, "none")
    if S2["done"] and not (S["done"] or (new_ends >= 1 and ok_variant)):
        res.violation(f"success-marker-without-completed-body:{vname}", f"from {S} with {signame} at line event {k} {where}: success marker present although the body "
                      f"did not run to a successful end ({S2})", payload)
    if not o["lock_free"]:
        res.violation(f"lock-survives-process:{vname}", f"from {S} with {signame} at {k}: the run lock cannot be taken after the process died", payload)
    if S["done"] and new_starts != 0:
        res.violation(f"body-rerun-despite-success-marker:{vname}", f"from {S} with {signame} at {k}: body started {new_starts} time(s)", payload)
    if k == 0:
        want = 0 if S["done"] else 1
        if new_starts != want:
            res.violation(f"relaunch-body-count:{vname}", f"launch from {S}: body started {new_starts} time(s), expected {want}", payload)
        if o["exit"] < 0:
            res.violation(f"no-signal-launch-killed:{vname}", f"launch from {S} died with signal {-o['exit']}", payload)
        if S2["pid"]:
            res.violation(f"pid-file-left:{vname}", f"launch from {S} ended on its own (exit {o['exit']}) and left the process-id file", payload)
        if not S["done"]:
            if ok_variant and not (S2["done"] and o["exit"] == 0):
                res.violation(f"successful-run-not-marked:{vname}", f"launch from {S}: exit {o['exit']}, state {S2}", payload)
            if not ok_variant and (S2["done"] or S2["failed"] is None or o["exit"] == 0):
                res.violation(f"failed-run-not-marked:{vname}", f"launch from {S}: exit {o['exit']}, state {S2}", payload)
    else:
        in_body, ev = where
        if sig in (15, 2) and in_body and not S["done"] and o.get("delivered"):
            if S2["failed"] is None or S2["done"]:
                res.violation(f"signal-in-body-markers:{signame}:{vname}", f"{signame} at line event {k} {ev} inside the body from {S}: markers {S2}", payload)


def check_fault(res, vname, ok_variant, S, o, k, sig, where, fault):
    """Clauses that do not depend on how far the run got when the notification channel failed."""
    S2 = o["state"]
    new_starts = S2["starts"] - S["starts"]
    new_ends = S2["ends"] - S["ends"]
    payload = {"variant": vname, "state": S, "k": k, "sig": sig, "fault": fault, "result": o}
    signame = SIGNALS.get(sig, "none") if k else "none"
    tag = f"notification fault {fault}" + (f" and {signame} at line event {k}" if k else "")
    if S2["done"] and not (S["done"] or (new_ends >= 1 and ok_variant)):
        res.violation(f"success-marker-without-completed-body:{vname}:fault", f"from {S} with {tag}: success marker present although the body did not run "
                      f"to a successful end ({S2})", payload)
    if not o["lock_free"]:
        res.violation(f"lock-survives-process:{vname}:fault", f"from {S} with {tag}: the run lock cannot be taken after the process died", payload)
    if S["done"] and new_starts != 0:
        res.violation(f"body-rerun-despite-success-marker:{vname}:fault", f"from {S} with {tag}: body started {new_starts} time(s)", payload)
    if new_starts > 1:
        res.violation(f"relaunch-body-count:{vname}:fault", f"from {S} with {tag}: body started {new_starts} time(s)", payload)
    if k == 0:
        if o["exit"] < 0:
            res.violation(f"no-signal-launch-killed:{vname}:fault", f"launch from {S} with {tag} died with signal {-o['exit']}", payload)
        if S2["pid"]:
            res.violation(f"pid-file-left:{vname}:fault", f"launch from {S} with {tag} ended on its own (exit {o['exit']}) and left the process-id file", payload)
        if ok_variant and new_ends >= 1 and not S2["done"] and not S["done"]:
            res.violation(f"successful-run-not-marked:{vname}:fault", f"launch from {S} with {tag}: the body ran to its end but there is no success marker ({S2})", payload)


def replay(ctx, payload):
    from . import crash
    crash.worker_init()
    variant = next(v for v in VARIANTS if f"{v['how']}{v['code']}" == payload["variant"])
    o = crash.launch({"variant": variant, "state": payload["state"], "k": payload["k"], "sig": payload["sig"] or 9, "fault": payload.get("fault")})
    print("state:", payload["state"], "k:", payload["k"], "signal:", payload["sig"])
    print("result:", json.dumps(o)[:3000])
    return 0


_k_run = run


def run(ctx):  # noqa: F811
    """+ overlapping launches of the same job script (pairs of REAL TaskRunner processes, see c05.pair_exploration): a launch made
    while another one runs must execute the body exactly when no success marker exists once it owns the run lock."""
    from .c05 import pair_exploration
    res = _k_run(ctx)
    pair_exploration(ctx, res)
    res.coverage["rule"] += ("; plus triples of real TaskRunner processes (failing job: A stopped at every traced line event, B waits for the run lock, A fails and leaves, "
                             "B is held inside its body while C is launched - C must wait); plus pairs of real TaskRunner processes on one job directory: A stopped (SIGSTOP) at every traced line event, B "
                             "launched meanwhile, A resumed - the body runs exactly once when no success marker existed, never when it did")
    return res


_k_replay = replay


def replay(ctx, payload):  # noqa: F811
    if payload.get("pair"):
        from . import crash
        crash.worker_init()
        print(crash.launch_pair(payload["item"]))
        return 0
    return _k_replay(ctx, payload)
