"""C14 — submitted configurations are frozen together with their identity (Engine G)."""
from __future__ import annotations

import json

from .c01 import ROOTS, SEEDS, hash_seeds
from .common import Result, clip_samples
from .genspace import enumerate_with_seeds
from .pool import Pool

PROPERTY = "C14"
LEVEL = "exploration"


def run(ctx):
    res = Result(ctx, LEVEL)
    if ctx.quick:
        descs, hist, capped = enumerate_with_seeds(ROOTS, SEEDS, N=4, k=2, kseed=1, allow=("struct", "pre"))
        d2, h2, _ = enumerate_with_seeds(ROOTS, [], N=4, k=1)
        seen = {json.dumps(d, sort_keys=True) for d in descs}
        descs += [d for d in d2 if json.dumps(d, sort_keys=True) not in seen]
    else:
        descs, hist, capped = enumerate_with_seeds(ROOTS, SEEDS, N=5, k=3, kseed=2, allow=("struct", "pre"))
        d2, h2, _ = enumerate_with_seeds(ROOTS, SEEDS, N=5, k=2, kseed=1)
        seen = {json.dumps(d, sort_keys=True) for d in descs}
        descs += [d for d in d2 if json.dumps(d, sort_keys=True) not in seen]
    items = [{"G": d, "route": r} for d in descs for r in ("seal", "submit", "abort+seal", "abort+submit", "instance+submit")]
    with Pool(seeds=hash_seeds(ctx), init="engines.gwork:init", recycle=5000) as pool:
        outs = pool.map("engines.gwork:eval_c14", items)
    attempts, sigs = 0, set()
    for it, o in zip(items, outs):
        attempts += o["attempts"]
        if o["attempts"]:
            sigs.add((o["sig"], it["route"]))
        for p in o["problems"]:
            k = p["kind"]
            if k in ("assignment-accepted", "value-changed"):
                key = f"{k}:{p['cls']}.{p['field']}"
            elif k in ("set-meta-accepted", "add-pretasks-accepted", "not-sealed"):
                key = f"{k}:{p['cls']}"
            elif k == "frozen-changed-through-copy":
                key = f"{k}:{p['op']}:{'+'.join(p['part'])}"
            else:
                key = k
            res.violation(f"{key}:{it['route']}", f"after {it['route']}: {p} on {json.dumps(it['G'])[:600]}", {"G": it["G"], "route": it["route"], "problem": p})
    res.coverage = {
        "evaluations": attempts,
        "distinct_nontrivial": len(sigs),
        "rule": "every description within (N,k) x {seal(), DRY_RUN submit, DRY_RUN submit of a task first instantiated in a directory context of its own (values of configurations sealed earlier - upstream tasks - must not move), each also after a first sealing attempt that aborts half-way (instance() without path context)} (structural deviations: sharing, cycles, lists/dicts of configurations, task outputs, pre/init tasks, "
                "meta flags; plus scalar deviations at depth 1) x {seal(), DRY_RUN submit} x every reachable node x every mutation attempt (assign each "
                "parameter a type-correct new value, set_meta True/False, add_pretasks; then the same operations on a copyconfig() of every frozen node, after each of which the values, pre-tasks, init tasks and meta flag of the frozen original must be what they were), identifiers of all nodes and the job directory re-read after "
                "every attempt; evaluations = mutation attempts; distinct_nontrivial = distinct (signature, route)",
        "samples": clip_samples([descs[5], descs[len(descs) // 2]]),
        "exhaustive": not capped, "descriptions": len(descs),
    }
    res.assumptions = ["in-place mutation of a list/dict value obtained from a sealed configuration is not an assignment and is outside the statement"]
    return res


def replay(ctx, payload):
    from . import gwork
    gwork.init()
    print(json.dumps(payload["G"]))
    print(gwork.eval_c14({"G": payload["G"], "route": payload["route"]}))
    return 0
