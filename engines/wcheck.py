"""Shared driver of the Engine-W checks (C04-C09, C11, C16)."""
from __future__ import annotations

import json

from .common import Result
from .explore import Search, coverage, replay_execution
from .pool import Pool

W_ASSUMPTIONS = [
    "loop callbacks are atomic with respect to other actors except at the scheduling points (block, thread start, process spawn, loop callback end; in fine-grained scenarios also every visible file / lock operation)",
    "environment models: POSIX per-process record locks, inotify delivery per watching process, process death drops its locks, virtual job process follows the behaviour table of TaskRunner (conformance: engines/conformance.py)",
    "bounds: deviation bound per scenario as reported in completed_deviation_bound; <=4 jobs, <=2 scheduler processes, <=2 tokens",
]


def run_w(ctx, prop, plan, rule, level="model_checking", extra_assumptions=(), budget_s=None):
    """plan: list of dicts {scens, policies, bound, cap?, kills?: {restart_bound}}"""
    res = Result(ctx, level)
    allsc = []
    with Pool(seeds=[0], init="engines.explore:worker_init", recycle=None) as pool:
        S = Search(pool, [prop], budget_s=budget_s)
        # scenario order is rotated by the seed (what is explored never changes)
        for block in plan:
            scens = block["scens"]
            k = ctx.seed % max(1, len(scens))
            scens = scens[k:] + scens[:k]
            allsc.extend(scens)
            if block.get("faults") is not None:
                S.explore_faults(scens, block.get("policies", ("FIFO",)), kind=block["faults"])
            elif block.get("kills") is not None:
                for scen in scens:
                    S.explore_kills(scen, policy=block.get("policies", ("FIFO",))[0], base_schedules=block["kills"].get("bases", ({},)),
                                    restart_bound=block["kills"].get("restart_bound", 0), demote=block["kills"].get("demote", False))
            else:
                S.explore_block(scens, block.get("policies", ("FIFO",)), block["bound"], cap=block.get("cap"), window=block.get("window"), demote=block.get("demote", False))
        cov = coverage(S, allsc, rule)
    for p, key, msg, payload in S.violations:
        if p == prop:
            payload = dict(payload, props=[prop])
            res.violation(key, f"[{payload['scen']['name']} / {payload['policy']} / schedule {payload['schedule']}"
                          + (f" / kill {payload['kill']}" if payload.get("kill") else "") + f"] {msg}", payload)
    res.coverage = cov
    res.assumptions = W_ASSUMPTIONS + list(extra_assumptions)
    return res


def replay(ctx, payload):
    return replay_execution(payload)
