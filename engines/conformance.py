"""Keeps the environment models of Engine W honest (DESIGN.md 2.2.6).  Run by setup.sh and by `./check conformance`.

1. POSIX lock model vs fcntl.lockf (through fasteners, as the library uses it): all operation sequences of length <= 4
   over {acquire-nonblocking, release} x {process A handle 1, process A handle 2, process B}, executed by real helper
   processes and by the model.
2. inotify/watchdog model: real event kinds for create-then-write, overwrite (write_text), unlink vs the events the
   virtual file layer emits; a raising handler stops delivery.
3. Behaviour table of the virtual job process vs the real TaskRunner (three modes): visible marker operations in order
   and exit code.
4. End-to-end: one real two-job + token experiment with real processes vs the FIFO execution of the same script in the
   virtual world: final states and files left behind.
"""
from __future__ import annotations

import itertools
import json
import multiprocessing as mp
import os
import shutil
import sys
import tempfile
import time
from pathlib import Path


# ---------------------------------------------------------------------------------------------- 1. locks
def _lock_helper(conn, path):
    import fasteners
    locks = {}
    while True:
        msg = conn.recv()
        if msg is None:
            break
        op, h = msg
        if op == "reset":
            for l in locks.values():
                try:
                    if l.acquired:
                        l.release()
                except Exception:  # noqa
                    pass
            locks.clear()
            conn.send(True)
            continue
        l = locks.get(h)
        if l is None:
            l = locks[h] = fasteners.InterProcessLock(path)
        if op == "acq":
            conn.send(bool(l.acquire(blocking=False)))
        elif op == "unlink":
            # the lock file is removed (the locks held on it stay: they belong to the open file, not to the path)
            try:
                os.unlink(path)
                conn.send("unlinked")
            except FileNotFoundError:
                conn.send("absent")
        elif op == "rw":
            # a plain open + close of the lock file (e.g. Path.read_text / write_text) by this process
            try:
                open(path, "a").close()
                conn.send("rw")
            except Exception as e:  # noqa
                conn.send(f"err:{type(e).__name__}")
        else:
            try:
                if l.acquired:
                    l.release()
                    conn.send(True)
                else:
                    conn.send(None)
            except Exception as e:  # noqa
                conn.send(f"err:{type(e).__name__}")


def check_locks(maxlen=4):
    ctx = mp.get_context("fork")
    d = tempfile.mkdtemp(prefix="conf_lock")
    path = os.path.join(d, "the.lock")
    procs = {}
    for name in ("A", "B"):
        a, b = ctx.Pipe()
        p = ctx.Process(target=_lock_helper, args=(b, path), daemon=True)
        p.start()
        procs[name] = (p, a)
    actors = [("A", 1), ("A", 2), ("B", 1)]
    symbols = [(a, op) for a in actors for op in ("acq", "rel")] + [(("A", 1), "rw"), (("A", 1), "unlink")]
    n, bad = 0, []
    try:
        for length in range(1, maxlen + 1):
            for seq in itertools.product(symbols, repeat=length):
                for _, c in procs.values():
                    c.send(("reset", 0))
                    c.recv()
                if os.path.exists(path):
                    os.unlink(path)
                # model (the one of engines/vworld.PosixLockTable): a lock belongs to the FILE (generation of the path) that the handle
                # has open - fasteners opens it at the first acquire() and closes it at release() - and to the process; per lock
                # object an `acquired` flag (as fasteners keeps one)
                gen_of_path = None           # generation currently reachable through the path (None: no file)
                gens = 0
                owner = {}                   # generation -> owning process
                hfile = {}                   # (proc, handle) -> generation it has open
                flags = {}
                real, model = [], []
                for (proc, h), op in seq:
                    c = procs[proc][1]
                    c.send((op, h))
                    real.append(c.recv())
                    if op == "unlink":
                        model.append("unlinked" if gen_of_path is not None else "absent")
                        gen_of_path = None
                    elif op == "rw":
                        # POSIX record locks: closing ANY descriptor of the file drops the locks the process holds on it
                        if gen_of_path is None:
                            gens += 1
                            gen_of_path = gens
                        if owner.get(gen_of_path) == proc:
                            owner[gen_of_path] = None
                        model.append("rw")
                    elif op == "acq":
                        g = hfile.get((proc, h))
                        if g is None:
                            if gen_of_path is None:
                                gens += 1
                                gen_of_path = gens
                            g = hfile[(proc, h)] = gen_of_path
                        if owner.get(g) is None or owner.get(g) == proc:
                            owner[g] = proc
                            flags[(proc, h)] = True
                            model.append(True)
                        else:
                            model.append(False)
                    else:
                        if flags.get((proc, h)):
                            flags[(proc, h)] = False
                            g = hfile.pop((proc, h))
                            # POSIX: releasing (and closing) through any handle drops the lock of the whole process on that file
                            if owner.get(g) == proc:
                                owner[g] = None
                            model.append(True)
                        else:
                            model.append(None)
                n += 1
                if real != model:
                    bad.append({"sequence": [f"{p}{h}:{op}" for (p, h), op in seq], "real": real, "model": model})
    finally:
        for p, c in procs.values():
            c.send(None)
            p.join(timeout=2)
        shutil.rmtree(d, ignore_errors=True)
    return {"check": "posix-locks", "sequences": n, "mismatches": bad[:5], "ok": not bad}


# ---------------------------------------------------------------------------------------------- 2. inotify
def check_inotify():
    from watchdog.events import FileSystemEventHandler
    from watchdog.observers import Observer
    d = Path(tempfile.mkdtemp(prefix="conf_ino"))
    events = []

    class H(FileSystemEventHandler):
        def on_any_event(self, event):
            if not event.is_directory and event.event_type in ("created", "modified", "deleted"):
                events.append((event.event_type, os.path.basename(event.src_path)))

    obs = Observer()
    obs.schedule(H(), str(d), recursive=True)
    obs.start()
    out = {"check": "inotify", "cases": {}, "ok": True}

    def settle():
        time.sleep(0.3)
        ev = list(events)
        events.clear()
        # consecutive identical events may be coalesced by the kernel: compare modulo repetition
        ded = [e for i, e in enumerate(ev) if i == 0 or e != ev[i - 1]]
        return ded

    try:
        p = d / "a.token"
        with p.open("wt") as fp:
            fp.write("1\nuri\n")
        out["cases"]["create-then-write"] = (settle(), [("created", "a.token"), ("modified", "a.token")])
        p.write_text("2\nuri\n")
        out["cases"]["overwrite"] = (settle(), [("modified", "a.token")])
        p.unlink()
        out["cases"]["unlink"] = (settle(), [("deleted", "a.token")])
        info = d / "token.info"
        info.write_text("1")
        settle()
        info.write_text("2")
        out["cases"]["token.info rewrite"] = (settle(), [("modified", "token.info")])
    finally:
        obs.stop()
        obs.join(timeout=2)
    for k, (real, model) in out["cases"].items():
        if real != model:
            out["ok"] = False
    # a raising handler stops delivery for good
    events2 = []

    class Bad(FileSystemEventHandler):
        def on_created(self, event):
            events2.append(os.path.basename(event.src_path))
            raise ValueError("boom")

    obs = Observer()
    obs.schedule(Bad(), str(d), recursive=True)
    obs.start()
    old = sys.stderr
    sys.stderr = open(os.devnull, "w")
    try:
        (d / "x1").touch()
        time.sleep(0.3)
        (d / "x2").touch()
        time.sleep(0.3)
    finally:
        sys.stderr = old
        obs.stop()
        obs.join(timeout=2)
        shutil.rmtree(d, ignore_errors=True)
    out["raising_handler_delivered"] = events2
    if events2 != ["x1"]:
        out["ok"] = False
    out["cases"] = {k: {"real": v[0], "model": v[1]} for k, v in out["cases"].items()}
    return out


# ---------------------------------------------------------------------------------------------- 3. behaviour table
def check_behaviour():
    from . import crash
    from .vxpm import BEHAVIOUR
    crash.worker_init()
    S0 = {"done": False, "failed": None, "starts": 0, "ends": 0}
    SD = {"done": True, "failed": None, "starts": 0, "ends": 0}
    out = {"check": "behaviour-table", "modes": {}, "ok": True}
    cases = {"ok": ({"code": 0, "how": "exit"}, S0), "fail": ({"code": 3, "how": "exit"}, S0), "done-present": ({"code": 0, "how": "exit"}, SD)}
    for mode, (variant, state) in cases.items():
        r = crash.launch({"variant": variant, "state": state, "k": 0, "sig": 9})
        real = {"exit": r["exit"], "done": r["state"]["done"], "failed": r["state"]["failed"] is not None, "pid_left": r["state"]["pid"],
                "body_ran": r["state"]["starts"] > state["starts"]}
        table = BEHAVIOUR[mode]
        model = {"exit": int([op for op in table if op.startswith("exit:")][0][5:]),
                 "done": "touch-done" in table or state["done"], "failed": "write-failed" in table,
                 "pid_left": "unlink-pid" not in table, "body_ran": "BODY" in table}
        out["modes"][mode] = {"real": real, "model": model}
        if real != model:
            out["ok"] = False
    return out


# ---------------------------------------------------------------------------------------------- 4. end to end
E2E_SCRIPT = '''
import sys, json, logging
sys._called_from_test = True
from pathlib import Path
from experimaestro import experiment
import universe.g as U
wd = Path(sys.argv[1])
with experiment(wd, "e2e", port=-1) as xp:
    xp.workspace.launcher.setenv("PYTHONPATH", sys.argv[2])
    tok = xp.token("tok", 1)
    a = U.Job(x=1); tok(1, a); a.submit()
    b = U.Job(x=2, up=a); tok(1, b); b.submit()
print(json.dumps({"a": a.__xpm__.job.state.name, "b": b.__xpm__.job.state.name}))
'''


def tree_summary(wd: Path):
    out = []
    for p in sorted(wd.rglob("*")):
        rel = p.relative_to(wd)
        parts = [x if len(x) < 40 else "<id>" for x in rel.parts]
        name = "/".join(parts)
        if p.name.endswith((".out", ".err")) or ".experimaestro" in parts or ".notifications" in parts or name.startswith("config") or p.name in ("token.lock",):
            continue
        out.append(name + ("@" if p.is_symlink() else ("/" if p.is_dir() else "")))
    return out


def check_e2e():
    import subprocess
    verif = str(Path(__file__).resolve().parent.parent)
    d = Path(tempfile.mkdtemp(prefix="conf_e2e"))
    out = {"check": "end-to-end", "ok": True}
    try:
        script = d / "s.py"
        script.write_text(E2E_SCRIPT)
        real_wd = d / "real"
        env = dict(os.environ, PYTHONPATH=verif)
        r = subprocess.run([sys.executable, str(script), str(real_wd), verif], capture_output=True, text=True, env=env, timeout=120)
        if r.returncode != 0:
            return {"check": "end-to-end", "ok": False, "error": r.stderr[-800:]}
        real_states = json.loads(r.stdout.strip().splitlines()[-1])
        real_tree = tree_summary(real_wd)
        # the same script in the virtual world
        from . import vworld as V, vxpm as X
        X.install()
        import universe.g as U
        rec = {}

        def vscript(wd, result, proc):
            from experimaestro import experiment
            with experiment(wd, "e2e", launcher=X.make_launcher(wd)) as xp:
                tok = xp.token("tok", 1)
                a = U.Job(x=1)
                tok(1, a)
                a.submit()
                b = U.Job(x=2, up=a)
                tok(1, b)
                b.submit()
            rec["states"] = {"a": a.__xpm__.job.state.name, "b": b.__xpm__.job.state.name}

        def at_end(result, hub, world):
            rec["tree"] = tree_summary(Path(world.root))
        res, hub, world = V.run_world([vscript], at_end=at_end)
        out["real_states"], out["virtual_states"] = real_states, rec.get("states")
        # the real connector keeps its tokens under its own local path: compare modulo that prefix
        norm = lambda t: sorted(x.replace("local/", "", 1) if x.startswith("local/") else x for x in t if x not in ("local/",))
        rt = [x for x in norm(real_tree) if not x.startswith("tokens")]
        vt = [x for x in norm(rec.get("tree", [])) if not x.startswith("tokens")]
        out["only_real"] = sorted(set(rt) - set(vt))
        out["only_virtual"] = sorted(set(vt) - set(rt))
        if real_states != rec.get("states") or out["only_real"] or out["only_virtual"]:
            out["ok"] = False
    finally:
        shutil.rmtree(d, ignore_errors=True)
    return out


def main(e2e=True):
    results = [check_locks(), check_inotify(), check_behaviour()]
    if e2e:
        results.append(check_e2e())
    ok = all(r["ok"] for r in results)
    for r in results:
        print(("OK   " if r["ok"] else "DRIFT") + " " + r["check"] + " " + json.dumps({k: v for k, v in r.items() if k not in ("check", "ok")}, default=str)[:700])
    return 0 if ok else 2


if __name__ == "__main__":
    sys.path.insert(0, str(Path(__file__).resolve().parent.parent))
    sys.exit(main())
