"""C13 — runtime objects mirror the configuration graph and are initialised once (Engine G)."""
from __future__ import annotations

import json

from .c01 import ROOTS, SEEDS, hash_seeds
from .common import Result, clip_samples
from .genspace import enumerate_with_seeds
from .pool import Pool

PROPERTY = "C13"
LEVEL = "exploration"


def run(ctx):
    res = Result(ctx, LEVEL)
    if ctx.quick:
        descs, hist, capped = enumerate_with_seeds(ROOTS, SEEDS, N=5, k=3, kseed=1, allow=("struct", "pre"))
    else:
        descs, hist, capped = enumerate_with_seeds(ROOTS, SEEDS, N=6, k=4, kseed=2, allow=("struct", "pre"))
    items = [{"G": d, "route": r} for d in descs for r in ("instance", "params", "store")]
    with Pool(seeds=hash_seeds(ctx), init="engines.gwork:init", recycle=8000) as pool:
        outs = pool.map("engines.gwork:eval_c13", items)
    objs, sigs = 0, set()
    for it, o in zip(items, outs):
        objs += o["objects"]
        sigs.add((o["sig"], it["route"]))
        for p in o["problems"]:
            key = f"{p['kind']}:{it['route']}" + (f":{p['cls']}" if "cls" in p else "")
            res.violation(key, f"route {it['route']}: {p} for {json.dumps(it['G'])[:700]}", {"G": it["G"], "route": it["route"], "problem": p})
    res.coverage = {
        "evaluations": len(items),
        "distinct_nontrivial": len(sigs),
        "rule": "every description within (N,k) structural deviations (sharing, cycles of length 1-3, pre-tasks attached at any node / shared / nested, "
                "init tasks on the root, task outputs) x {instance(), fromParameters(as_instance=True), three instance() calls sharing one ObjectStore (a sub-configuration, the root, the root again)}; instrumented universe classes log "
                "__post_init__ (with the set of readable parameters) and execute; compared: object graph isomorphic to the description, one runtime "
                "object per configuration, __post_init__ exactly once per object with all parameters set, each pre-task executed once, init tasks "
                "once, in order, after all pre-tasks; distinct_nontrivial = distinct (signature, route)",
        "samples": clip_samples([descs[5], descs[len(descs) // 2]]),
        "exhaustive": not capped, "descriptions": len(descs), "runtime_objects_checked": objs,
    }
    res.assumptions = ["'before the task body starts' is observed on the real run() route in C12 (pre, init, init, body order)"]
    return res


def replay(ctx, payload):
    from . import gwork
    gwork.init()
    print(json.dumps(payload["G"]))
    print(gwork.eval_c13({"G": payload["G"], "route": payload["route"]}))
    return 0
