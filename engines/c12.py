"""C12 — saving and loading a configuration graph loses nothing (Engine G)."""
from __future__ import annotations

import os

import json

from .c01 import ROOTS, SEEDS, hash_seeds
from .common import Result, clip_samples
from .genspace import enumerate_with_seeds
from .pool import Pool

PROPERTY = "C12"
LEVEL = "exploration"
ROUTES = ["json", "json-keepid", "json-instance", "state", "save"]


def run(ctx):
    res = Result(ctx, LEVEL)
    if ctx.quick:
        descs, hist, capped = enumerate_with_seeds(ROOTS, SEEDS, N=4, k=2, kseed=1)
    else:
        descs, hist, capped = enumerate_with_seeds(ROOTS, SEEDS, N=5, k=3, kseed=2)
    items = [{"G": d, "route": r} for d in descs for r in ROUTES]
    with Pool(seeds=hash_seeds(ctx), init="engines.gwork:init", recycle=8000) as pool:
        outs = pool.map("engines.gwork:eval_c12", items)
        real = pool.map("engines.c12:real_params_route", list(range(len(REAL_CASES))))
        tasks = [d for d in descs if d["nodes"][d["root"]].get("cls") in ("job", "jobout", "job_old", "jobout_old")]
        routs = pool.map("engines.gwork:eval_c12_real", [{"G": d} for d in tasks])
        dpath = pool.map("engines.gwork:eval_datapath", [{}])[0]
    done, sigs = 0, set()
    for it, o in zip(items, outs):
        done += o["done"]
        sigs.add(o["sig"])
        for p in o["problems"]:
            key = f"{p['kind']}:{p['route']}"
            if p["kind"] == "not-isomorphic":
                key += ":" + classify(p["diff"])
            if p["kind"] == "identifier-differs":
                key += ":" + id_cause(it["G"])
            res.violation(key, f"route {p['route']}: {p.get('diff') or p.get('error') or p} for {json.dumps(it['G'])[:600]}", {"G": it["G"], "route": it["route"], "problem": p})
    nreal = 0
    for d, o in zip(tasks, routs):
        nreal += o["done"]
        done += o["done"]
        for p in o["problems"]:
            res.violation(f"real-run:{p['kind']}" + (":" + classify(p["diff"]) if p.get("diff") else ""),
                          f"real params.json + run(): {p.get('diff') or p.get('error') or p} for {json.dumps(d)[:600]}", {"G": d, "route": "real", "problem": p})
    for i, o in enumerate(real):
        done += 1
        for p in o:
            res.violation("real-params:" + p["kind"], f"real job process route, case {REAL_CASES[i]['name']}: {p}", {"case": i, "problem": p})
    # configurations carrying data files
    done += dpath["cases"]
    for p in dpath["problems"]:
        res.violation(f"datapath:{p['kind']}:{p['route']}:{p['history']}", f"data files, {p['shape']}: {p}", {"datapath": p})
    res.coverage = {
        "evaluations": done,
        "distinct_nontrivial": len(sigs),
        "datapath_cases": dpath["cases"],
        "rule": "every description within (N,k) (all parameter kinds, sharing, cycles, task outputs, meta True/False/None, pre/init tasks) x routes "
                "{objects list of params.json -> fromParameters config mode (stored identifiers discarded / kept) / instance mode, state_dict -> from_state_dict, save -> load}; reloaded graph "
                "extracted from the real objects and compared (canonical relabelling) with the description, full and raw identifiers of every reloaded node and of a fresh configuration embedding the reloaded root compared with the originals; plus real "
                "GENERATE_ONLY params.json files read back by run() with tags; plus configurations with data files (DataPath) x {save/load, serialize/deserialize} x {one file, two files under the same parameter name, one file used twice} x {fresh directory, saved again, saved again after the source was replaced, another object saved into the same directory}: loaded values and data equal the configured ones and the source files are untouched; distinct_nontrivial = distinct canonical signatures",
        "samples": clip_samples([descs[7], descs[len(descs) // 2]]),
        "exhaustive": not capped, "descriptions": len(descs), "routes": ROUTES + ["real params.json -> run()"], "real_params_cases": len(REAL_CASES), "real_run_descriptions": nreal,
    }
    # NORMAL-mode route (Engine W): re-submissions with other values of what is outside the identifier
    from . import wcat
    from .wcheck import run_w
    wres = run_w(ctx, PROPERTY, [{"scens": wcat.reparam_scenarios(), "policies": ("FIFO", "LIFO", "JOBS"), "bound": 1}], "re-submissions")
    for v in wres.violations:
        res.violation(v["key"], v["message"], v["payload"])
    res.coverage["evaluations"] += wres.coverage["executions"]
    res.coverage["resubmission_executions"] = wres.coverage["executions"]
    res.coverage["rule"] += ("; plus (Engine W, real scheduler in the virtual world, all schedules with <= 1 deviation) a job submitted again with another Meta "
                             "value after a failure, in the same / a later / another experiment: every launched process reads the values of the submission that launched it")
    res.assumptions = ["data paths (DataPath) are covered by the hand-made family only (universe.g.Dat / DatBox), not by the general description space"]
    return res


def classify(diff):
    d = diff or ""
    for k in ("/meta", "/init", "/pre", "/cls", "output_of", "/args/"):
        if k in d:
            if k == "/args/":
                return "args:" + d.split("/args/")[1].split(":")[0].split("/")[0].split("[")[0]
            return k.strip("/")
    return "other"


def id_cause(G):
    c = []
    if any(n.get("meta") is False for n in G["nodes"].values()):
        c.append("meta-false")
    if G["nodes"][G["root"]].get("init"):
        c.append("init")
    return "+".join(c) or "other"


# ---- the real route: params.json written by the real CommandParameters (GENERATE_ONLY) and read by run.run()
REAL_CASES = [
    {"name": "tags-and-values", "x": 3, "tags": {"x": 3}},
    {"name": "nested-shared", "x": 1, "tags": {}},
]


def real_params_route(i):
    """Writes a real job directory with GENERATE_ONLY, then calls experimaestro.run.run(params.json) in-process and
    compares what the task body observes (values, tags) with what was configured."""
    import tempfile, shutil
    from pathlib import Path
    from experimaestro import experiment, tag
    from experimaestro.scheduler.workspace import RunMode
    import experimaestro.run as xrun
    import experimaestro.taskglobals as tg
    import universe.g as U
    from . import graphs as Gr
    case = REAL_CASES[i]
    problems = []
    d = Path(tempfile.mkdtemp(prefix="c12r", dir=os.environ.get("VERIF_SCRATCH", "/dev/shm")))
    try:
        with Gr.quiet():
            with experiment(d, "real", run_mode=RunMode.GENERATE_ONLY, port=-1) as xp:
                leaf = U.Leaf(i=2, s="x", m=5)
                box = U.Box(child=leaf, lst=[leaf, U.Leaf(i=1)], dct={"k": leaf}, ddi={"a": {"x": 1}})
                pre = U.PreT(k=4)
                t = U.Job(x=tag(case["x"]) if case["tags"] else case["x"], cfg=box, code=0)
                t.add_pretasks(pre)
                t.submit(init_tasks=[U.InitT(k=1), U.InitT(k=2)])
                jobpath = t.__xpm__.job.path
        params = jobpath / "params.json"
        if not params.is_file():
            return [{"kind": "no-params-file", "path": str(params)}]
        U.LOG.clear()
        seen = {}
        orig_execute = U.Job.execute

        def execute(self):
            seen["x"] = self.x
            seen["cfg.child.i"] = self.cfg.child.i
            seen["cfg.child.s"] = self.cfg.child.s
            seen["cfg.child.m"] = self.cfg.child.m
            seen["shared"] = self.cfg.lst[0] is self.cfg.child and self.cfg.dct["k"] is self.cfg.child
            seen["ddi"] = self.cfg.ddi
            seen["tags"] = dict(self.__tags__)
            seen["order"] = [(e[0], type(e[1]).__name__.split(".")[0], getattr(e[1], "k", None)) for e in U.LOG if e[0] == "exec"]
        U.Job.execute = execute
        try:
            env = tg.Env.instance()
            old = (env.wspath, env.taskpath)
            oldp = xrun.progress
            xrun.progress = lambda *a, **k: None
            try:
                with Gr.quiet():
                    xrun.run(params)
            finally:
                xrun.progress = oldp
            env.wspath, env.taskpath = old
        finally:
            U.Job.execute = orig_execute
        want = {"x": case["x"], "cfg.child.i": 2, "cfg.child.s": "x", "cfg.child.m": 5, "shared": True, "ddi": {"a": {"x": 1}},
                "tags": case["tags"], "order": [("exec", "PreT", 4), ("exec", "InitT", 1), ("exec", "InitT", 2)]}
        for k, v in want.items():
            if seen.get(k) != v:
                problems.append({"kind": "task-observes:" + k, "observed": seen.get(k), "configured": v})
    except Exception as e:  # noqa
        import traceback
        problems.append({"kind": "raises", "error": f"{type(e).__name__}: {e}", "tb": traceback.format_exc()[-1200:]})
    finally:
        shutil.rmtree(d, ignore_errors=True)
    return problems


def replay(ctx, payload):
    if "datapath" in payload:
        from . import gwork
        gwork.init()
        print(json.dumps(gwork.eval_datapath({}), indent=1)[:4000])
        return 0
    if "scen" in payload:
        from .wcheck import replay as wreplay
        return wreplay(ctx, dict(payload, props=["C12"]))
    from . import gwork
    gwork.init()
    if "G" in payload and payload.get("route") == "real":
        print(json.dumps(payload["G"]))
        print(gwork.eval_c12_real({"G": payload["G"]}))
    elif "G" in payload:
        print(json.dumps(payload["G"]))
        print(gwork.eval_c12({"G": payload["G"], "route": payload["route"]}))
    else:
        print(real_params_route(payload["case"]))
    return 0
