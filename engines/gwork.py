"""Worker-side evaluation functions of Engine G (run inside spawned workers, real experimaestro code)."""
from __future__ import annotations

import hashlib
import itertools
import json
import tempfile
import traceback
from pathlib import Path

from . import graphs as Gr
from . import refmodel as R
from .genspace import is_task, node_cls
from .refmodel import SCHEMA


def init():
    Gr.worker_init()
    probs = R.check_schema()
    if probs:
        # reported by the checks as violations of C02 (the flags decide what is in the signature)
        Gr._STATE["schema_problems"] = probs


def sig_digest(G, label=None):
    return hashlib.sha256(repr(R.signature(G, label)).encode()).hexdigest()[:20]


def labels_with_objects(G):
    return [l for l in G["nodes"]]


def request_orders(G, full):
    """Identifier-request orders: all permutations of the nodes when `full` (graphs with sharing or cycles, or
    small graphs), else forward and backward."""
    ls = sorted(G["nodes"])
    if full and len(ls) <= 5:
        return [list(p) for p in itertools.permutations(ls)]
    return [ls, list(reversed(ls))]


def shared_or_cyclic(G):
    refs = []
    for l, n in G["nodes"].items():
        if "output_of" in n:
            refs.append(n["output_of"])
            continue
        for a in n["args"].values():
            refs.extend(R.refs_in(a))
        refs.extend(n.get("pre", []))
        refs.extend(n.get("init", []))
    return len(refs) != len(set(refs)) or Gr.has_cycle(G)


def expected(G, l, sealed_root):
    """Reference identifier of node l; the root's init tasks only exist once it has been submitted."""
    init = not (l == G["root"] and not sealed_root)
    return R.full_id(G, l, init=init)


def run_history(G, style, rev, order, seal=True):
    """One history: build, request every node (unsealed), seal the root, request every node again.
    Returns list of (phase, label, real_full, real_raw)."""
    obs = []
    B = Gr.build(G, style, rev)
    root = G["root"]
    root_is_task = is_task(G, root)
    cyc = Gr.has_cycle(G)
    if style != "assign-peek":
        # (with "assign-peek" the only unsealed requests are those made in the middle of the construction: nothing is
        # asked between the last assignment and the sealing)
        for l in order:
            obs.append(("pre", l, Gr.ident(B.objs[l]), Gr.raw_ident(B.objs[l])))
    if seal:
        if root_is_task and not cyc:
            Gr.seal_root(G, B)
            job = B.tasks[root].__xpm__.job
            obs.append(("relpath", root, str(job.relpath), None))
        else:
            from experimaestro.xpmutils import DirectoryContext
            from pathlib import Path
            B.objs[root].__xpm__.seal(DirectoryContext(Path(Gr._STATE["dir"]) / "sealed"))
        for l in order:
            obs.append(("post", l, Gr.ident(B.objs[l]), Gr.raw_ident(B.objs[l])))
        # and once more in the opposite order (now everything that can be cached is cached)
        for l in reversed(order):
            obs.append(("post2", l, Gr.ident(B.objs[l]), Gr.raw_ident(B.objs[l])))
    return obs


def eval_c01(item):
    """item: {"G": description, "variants": "orders"|"styles"|"both"}.
    Returns mismatches between real identifiers and the reference, over all histories of the description."""
    G = item["G"]
    variants = item.get("variants", "both")
    out = {"mismatches": [], "requests": 0, "histories": 0, "error": None}
    root = G["root"]
    root_task_submittable = is_task(G, root) and not Gr.has_cycle(G)
    histories = []
    if variants in ("orders", "both"):
        for order in request_orders(G, shared_or_cyclic(G) or len(G["nodes"]) <= 3):
            histories.append(("kw", False, order))
    if variants in ("styles", "both"):
        ls = sorted(G["nodes"])
        for style, rev in (("kw", True), ("assign", False), ("assign", True), ("assign-peek", False)):
            histories.append((style, rev, ls))
    exp_cache = {}

    def exp(l, sealed):
        k = (l, sealed and root_task_submittable)
        if k not in exp_cache:
            exp_cache[k] = (expected(G, l, k[1]), R.raw_id(G, l))
        return exp_cache[k]

    for style, rev, order in histories:
        out["histories"] += 1
        try:
            obs = run_history(G, style, rev, order)
        except Exception as e:  # noqa
            out["mismatches"].append({"kind": "raises", "history": [style, rev, order],
                                      "error": f"{type(e).__name__}: {e}", "tb": traceback.format_exc()[-1500:]})
            continue
        for phase, l, full, raw in obs:
            out["requests"] += 1
            if phase == "relpath":
                n = G["nodes"][l]
                want = f"{SCHEMA[n['cls']]['tid']}/{exp(l, True)[0]}"
                if full != want:
                    out["mismatches"].append({"kind": "relpath", "history": [style, rev, order], "label": l, "real": full, "expected": want})
                continue
            ef, er = exp(l, phase != "pre")
            if full != ef or raw != er:
                out["mismatches"].append({"kind": "identifier", "phase": phase, "history": [style, rev, order], "label": l,
                                          "real": full, "expected": ef, "real_raw": raw, "expected_raw": er})
    out["root_id"] = R.full_id(G, root, init=root_task_submittable)
    out["sig"] = sig_digest(G)
    return out


def eval_ids(item):
    """Real full identifier of the root (sealed when it can be) + signature digest (used by C03 grouping)."""
    G = item["G"]
    try:
        B = Gr.build(G)
        root = G["root"]
        submitted = is_task(G, root) and not Gr.has_cycle(G)
        if submitted:
            Gr.seal_root(G, B)
        return {"id": Gr.ident(B.objs[root]), "raw": Gr.raw_ident(B.objs[root]),
                "sig": hashlib.sha256(repr(R.signature(G, None, init=submitted)).encode()).hexdigest()[:20], "sigraw": hashlib.sha256(repr(R.signature(G, None, full=False)).encode()).hexdigest()[:20]}
    except Exception as e:  # noqa
        return {"error": f"{type(e).__name__}: {e}", "tb": traceback.format_exc()[-1200:]}


# ---------------------------------------------------------------------------------------------- C02: neutral edits
def _alt(kind, cur):
    from .genspace import ALPHA
    for a in ALPHA[kind]:
        if not (a == cur and type(a) is type(cur)):
            return a
    raise KeyError(kind)


def only_via(G, l):
    """Nodes that are *parameters below* l: reachable from l through arguments only, and not reachable from the root
    without passing through l (l included).  Pre-tasks attached below a meta configuration are not followed: whether
    they belong to the signature is not something the documentation decides (DESIGN.md, C02)."""
    root = G["root"]

    def walk(start, stop=None, args_only=False):
        seen, stack = set(), [start]
        while stack:
            x = stack.pop()
            if x in seen:
                continue
            seen.add(x)
            if x == stop:
                continue
            m = G["nodes"][x]
            nxt = [m["output_of"]] if "output_of" in m else [r for v in m["args"].values() for r in R.refs_in(v)]
            if not args_only:
                nxt += m.get("pre", []) + m.get("init", [])
            stack.extend(nxt)
        return seen

    below = walk(l, args_only=True)
    without = walk(root, stop=l)
    return (below - without) | {l}


def neutral_edits(G):
    """Yields (kind, edited description, object-level spec or None)."""
    import copy
    from .genspace import add_default_node
    root = G["root"]
    for l, n in G["nodes"].items():
        if "output_of" in n:
            continue
        cls = SCHEMA[n["cls"]]
        for f in cls["fields"]:
            name, kind = f["name"], f["kind"]
            if f["generated"] or f["constant"]:
                continue
            if name not in n["args"]:
                if f["default"] is not None:
                    H = copy.deepcopy(G)
                    H["nodes"][l]["args"][name] = copy.deepcopy(f["default"])
                    yield (f"explicit-default:{kind.split(':')[0]}", H, None)
                elif not f["required"]:
                    H = copy.deepcopy(G)
                    H["nodes"][l]["args"][name] = None
                    yield ("explicit-none", H, None)
            if f["ignored"] and kind in ("int", "str", "path"):
                H = copy.deepcopy(G)
                cur = n["args"].get(name, f["default"])
                H["nodes"][l]["args"][name] = _alt(kind, cur)
                yield (f"ignored-value:{name}", H, None)
            if not f["ignored"] and kind.startswith("opt:cfg:") and n["args"].get(name) is None and kind.split(":")[2] in ("leaf", "box", "ring", "holder"):
                # an optional parameter left unset vs. holding a sub-configuration flagged meta: both are outside the signature
                H = copy.deepcopy(G)
                H["_n"] = 600
                c = add_default_node(H, kind.split(":")[2])
                H["nodes"][c]["meta"] = True
                H["nodes"][l]["args"][name] = {"ref": c}
                H.pop("_n")
                yield ("meta-config-in-optional", H, None)
            if f["ignored"] and kind == "opt:cfg:leaf" and n["args"].get(name) is None:
                H = copy.deepcopy(G)
                H["_n"] = 500
                c = add_default_node(H, "leaf")
                H["nodes"][l]["args"][name] = {"ref": c}
                H.pop("_n")
                yield ("ignored-config-set", H, None)
            # a meta=True element added to a list / dict of configurations
            if kind == "list:cfg:leaf" or kind == "dict:cfg:leaf":
                H = copy.deepcopy(G)
                H["_n"] = 500
                c = add_default_node(H, "leaf")
                H["nodes"][c]["meta"] = True
                H["nodes"][c]["args"]["i"] = 2
                H.pop("_n")
                if kind.startswith("list"):
                    cur = list(n["args"].get(name) or [])
                    for pos in {0, len(cur)}:
                        H2 = copy.deepcopy(H)
                        H2["nodes"][l]["args"][name] = cur[:pos] + [{"ref": c}] + cur[pos:]
                        yield ("meta-element-added:list", H2, None)
                else:
                    cur = dict((n["args"].get(name) or {"dict": {}})["dict"])
                    cur["m"] = {"ref": c}
                    H["nodes"][l]["args"][name] = {"dict": cur}
                    yield ("meta-element-added:dict", H, None)
        # tags
        H = copy.deepcopy(G)
        H["nodes"][l]["tags"] = {"t": "v"}
        yield ("tag", H, None)
        # class twins (class extended with defaulted / Meta / generated parameters)
        for twin in ("leaf_v2", "box_v2"):
            if SCHEMA[twin]["twin_of"] == n["cls"]:
                H = copy.deepcopy(G)
                H["nodes"][l]["cls"] = twin
                yield (f"class-extension:{twin}", H, None)
        # anything below a meta=True sub-configuration
        if n.get("meta") is True and l != root:
            for x in sorted(only_via(G, l)):
                m = G["nodes"][x]
                if "output_of" in m:
                    continue
                for f in SCHEMA[m["cls"]]["fields"]:
                    if f["kind"] in ("int", "str", "float", "list:int", "dict:int") and not f["constant"] and not f["generated"]:
                        H = copy.deepcopy(G)
                        cur = m["args"].get(f["name"], f["default"])
                        H["nodes"][x]["args"][f["name"]] = _alt(f["kind"], cur)
                        yield ("below-meta", H, None)
        # object-level edits on tasks
        if SCHEMA[n["cls"]].get("task"):
            yield ("token-dependency", G, {"label": l, "what": "token"})
            yield ("explicit-dependency", G, {"label": l, "what": "job"})
    # all twins at once
    H = copy.deepcopy(G)
    changed = False
    for l, n in H["nodes"].items():
        if "output_of" not in n and n["cls"] in ("leaf", "box"):
            n["cls"] += "_v2"
            changed = True
    if changed:
        yield ("class-extension:all", H, None)
    if is_task(G, root) and not Gr.has_cycle(G):
        yield ("launcher", G, {"submit": "launcher"})
        yield ("run-mode", G, {"submit": "generate"})
        yield ("workspace", G, {"submit": "workspace"})


def _ids_of(G, spec=None):
    """Identifiers of all nodes of G after building it (root sealed when submittable); spec = object-level edit."""
    from experimaestro.tokens import ProcessCounterToken
    extra = None
    if spec and "label" in spec:
        def extra(l, obj, B):
            if l == spec["label"]:
                if spec["what"] == "token":
                    obj.add_dependencies(ProcessCounterToken(2).dependency(1))
                else:
                    import universe.g as U
                    with Gr.quiet():
                        other = U.Job(x=77)
                        other.submit()
                    obj.add_dependencies(other.__xpm__.dependency())
    B = Gr.build(G, extra=extra)
    root = G["root"]
    if is_task(G, root) and not Gr.has_cycle(G):
        kw = {}
        if spec and spec.get("submit") == "launcher":
            from experimaestro.launchers.direct import DirectLauncher
            from experimaestro.connectors.local import LocalConnector
            l = DirectLauncher(LocalConnector.instance())
            l.setenv("SOMETHING", "1")
            kw["launcher"] = l
        elif spec and spec.get("submit") == "generate":
            from experimaestro.scheduler.workspace import RunMode
            kw["run_mode"] = RunMode.GENERATE_ONLY
        elif spec and spec.get("submit") == "workspace":
            from experimaestro.scheduler.workspace import Workspace, RunMode
            from experimaestro.settings import WorkspaceSettings, get_settings
            from pathlib import Path
            kw["workspace"] = Workspace(get_settings(), WorkspaceSettings(id=None, path=Path(Gr._STATE["dir"]) / "otherws"), run_mode=RunMode.DRY_RUN)
        Gr.submit(G, B, root, **kw)
    return {l: Gr.ident(B.objs[l]) for l in G["nodes"] if l in B.objs}


def eval_c02(item):
    G = item["G"]
    out = {"edits": 0, "kinds": {}, "mismatches": [], "sig": sig_digest(G)}
    try:
        base = _ids_of(G)
    except Exception as e:  # noqa
        out["mismatches"].append({"kind": "base-raises", "error": f"{type(e).__name__}: {e}", "tb": traceback.format_exc()[-1200:]})
        return out
    sig0 = R.signature(G)
    root = G["root"]
    for kind, H, spec in neutral_edits(G):
        out["edits"] += 1
        out["kinds"][kind] = out["kinds"].get(kind, 0) + 1
        if R.signature(H) != sig0:
            # the oracle itself says the edit is not neutral: that is a checker bug, never a verdict
            out["mismatches"].append({"kind": "ORACLE", "edit": kind, "H": H})
            continue
        try:
            ids = _ids_of(H, spec)
        except Exception as e:  # noqa
            out["mismatches"].append({"kind": "raises", "edit": kind, "H": H, "spec": spec, "error": f"{type(e).__name__}: {e}", "tb": traceback.format_exc()[-1200:]})
            continue
        if ids[root] != base[root]:
            out["mismatches"].append({"kind": "changed", "edit": kind, "H": H, "spec": spec, "before": base[root], "after": ids[root]})
    return out


def schema_problems(_):
    return Gr._STATE.get("schema_problems", [])


# ---------------------------------------------------------------------------------------------- C14: frozen after submit / seal
def _valid_alt(G, B, l, f):
    """A *type-correct* new value for field f of node l (so that a rejection can only come from the seal)."""
    from .genspace import ALPHA
    n = G["nodes"][l]
    kind = f["kind"]
    cur = n["args"].get(f["name"], f["default"])
    if kind in ALPHA:
        return Gr.to_py(_alt(kind, cur), B)
    if kind == "genpath":
        from pathlib import Path
        return Path("/elsewhere/file.txt")
    if kind.startswith("nest:"):
        _, outer, inner, base = kind.split(":")
        cands = [x for x in G["nodes"] if R.isa(node_cls(G, x), base) and x in B.objs]
        if cur not in (None, [], {"dict": {}}):
            return [] if outer == "list" else {}
        if not cands:
            return "SKIP"
        innerv = [B.objs[cands[0]]] if inner == "list" else {"z": B.objs[cands[0]]}
        return [innerv] if outer == "list" else {"z": innerv}
    base = kind.split("cfg:")[1]
    cands = [x for x in G["nodes"] if R.isa(node_cls(G, x), base) and x in B.objs]
    # tasks used as values must have been submitted
    cands = [x for x in cands if not is_task(G, x) or x in B.submitted]
    if kind.startswith("opt:cfg:") or kind.startswith("cfg:"):
        curref = cur["ref"] if R.is_ref(cur) else None
        for x in cands:
            if x != curref:
                return B.objs[x]
        return None if curref is not None and kind.startswith("opt") else "SKIP"
    if kind.startswith("list:cfg:"):
        return [B.objs[x] for x in cands[:1]] if not cur else []
    if kind.startswith("dict:cfg:"):
        return {"z": B.objs[cands[0]]} if (cands and not (cur or {"dict": {}})["dict"]) else {}
    return "SKIP"


def eval_c14(item):
    """item: {"G":..., "route": "seal"|"submit"}.  After sealing, every mutation attempt on every reachable node must
    raise and every identifier / the job directory must stay what it was."""
    import universe.g as U
    from experimaestro import setmeta
    G, route = item["G"], item["route"]
    out = {"attempts": 0, "problems": [], "sig": sig_digest(G), "nodes": 0}
    root = G["root"]
    aborted = route.startswith("abort+")
    if aborted:
        route = route[6:]
    try:
        B = Gr.build(G)
        submittable = is_task(G, root) and not Gr.has_cycle(G)
        if aborted:
            # a first attempt that fails half-way: instance() without a path context cannot fill generated paths and
            # raises in the middle of the sealing walk; the later seal / submit must still freeze everything
            try:
                (B.tasks[root] if root in B.tasks else B.objs[root]).instance()
                out["abort_raised"] = False
            except BaseException:  # noqa
                out["abort_raised"] = True
        def frozen_values():
            """values (generated ones included) of every configuration that is already sealed (e.g. upstream tasks submitted earlier)"""
            from experimaestro.core.objects import Config
            snap = {}
            for l in G["nodes"]:
                o = B.tasks.get(l) or B.objs.get(l)
                if o is None or "output_of" in G["nodes"][l] or not o.__xpm__._sealed:
                    continue
                snap[l] = {k: (("cfg", id(v)) if isinstance(v, Config) else repr(v)) for k, v in o.__xpm__.values.items()}
            return snap

        with_instance = route.startswith("instance+")
        if with_instance:
            route = route[9:]
        frozen = frozen_values()
        if with_instance:
            # the task is first turned into a runtime object in a directory context of its own (a debugging run): this seals it
            from experimaestro.xpmutils import DirectoryContext
            from pathlib import Path
            (B.tasks[root] if root in B.tasks else B.objs[root]).instance(DirectoryContext(Path(Gr._STATE["dir"]) / "debug"))
        if route == "submit":
            if not submittable:
                return out
            Gr.seal_root(G, B)
            now = frozen_values()
            for l, vals in frozen.items():
                if now.get(l) != vals:
                    ch = sorted(k for k in vals if now.get(l, {}).get(k) != vals[k])
                    out["problems"].append({"kind": "sealed-value-changed-by-later-submission", "label": l, "fields": ch,
                                            "before": {k: vals[k] for k in ch}, "now": {k: now.get(l, {}).get(k) for k in ch}})
        else:
            from experimaestro.xpmutils import DirectoryContext
            from pathlib import Path
            B.objs[root].__xpm__.seal(DirectoryContext(Path(Gr._STATE["dir"]) / "sealed"))
        objs = {l: (B.tasks[l] if l in B.tasks else B.objs[l]) for l in G["nodes"] if "output_of" not in G["nodes"][l]}
        if route == "seal" and G["nodes"][root].get("init"):
            # init tasks are handed over at submit(): with a bare seal() they are not part of the root's graph
            import copy
            H = copy.deepcopy(G)
            H["nodes"][root]["init"] = []
            keep = set(R.reachable(H, root))
            objs = {l: o for l, o in objs.items() if l in keep}
        # output nodes: the marked output configuration itself
        for l, n in G["nodes"].items():
            if "output_of" in n and n["output_of"] in objs:
                objs[l] = B.objs[l]
        base = {l: (Gr.ident(o), Gr.raw_ident(o)) for l, o in objs.items()}
        relpath = str(B.tasks[root].__xpm__.job.relpath) if route == "submit" else None
    except Exception as e:  # noqa
        out["problems"].append({"kind": "setup-raises", "error": f"{type(e).__name__}: {e}", "tb": traceback.format_exc()[-1200:]})
        return out
    out["nodes"] = len(objs)

    def check_ids(after):
        for l, o in objs.items():
            now = (Gr.ident(o), Gr.raw_ident(o))
            if now != base[l]:
                out["problems"].append({"kind": "identifier-changed", "label": l, "after": after, "before": base[l][0], "now": now[0]})
                base[l] = now
        if relpath is not None and str(B.tasks[root].__xpm__.job.relpath) != relpath:
            out["problems"].append({"kind": "relpath-changed", "after": after})

    for l, o in sorted(objs.items()):
        n = G["nodes"][l]
        cls = SCHEMA["out"] if "output_of" in n else SCHEMA[n["cls"]]
        if not o.__xpm__._sealed:
            out["problems"].append({"kind": "not-sealed", "label": l, "cls": cls["tid"]})
        for f in cls["fields"]:
            if "output_of" in n:
                val = 5
            else:
                val = _valid_alt(G, B, l, f)
            if isinstance(val, str) and val == "SKIP":
                continue
            out["attempts"] += 1
            before = o.__xpm__.values.get(f["name"], "<unset>")
            try:
                setattr(o, f["name"], val)
                out["problems"].append({"kind": "assignment-accepted", "label": l, "field": f["name"], "cls": cls["tid"], "fkind": f["kind"]})
            except Exception:
                pass
            if o.__xpm__.values.get(f["name"], "<unset>") is not before and o.__xpm__.values.get(f["name"], "<unset>") != before:
                out["problems"].append({"kind": "value-changed", "label": l, "field": f["name"], "cls": cls["tid"]})
            check_ids(f"assign {l}.{f['name']}")
        for flag in (True, False):
            out["attempts"] += 1
            try:
                setmeta(o, flag)
                out["problems"].append({"kind": "set-meta-accepted", "label": l, "cls": cls["tid"]})
            except BaseException:
                pass
            check_ids(f"setmeta {l}")
        out["attempts"] += 1
        try:
            o.add_pretasks(U.PreT(k=9))
            out["problems"].append({"kind": "add-pretasks-accepted", "label": l, "cls": cls["tid"]})
        except Exception:
            pass
        check_ids(f"add_pretasks {l}")

    # ---- a copy (copyconfig) of a frozen configuration is a new, unsealed configuration: whatever is done to the copy - assignments,
    # meta flag, pre-tasks - must leave the frozen original (values, pre-tasks, meta flag, identifier) as it was
    from experimaestro import copyconfig
    from experimaestro.core.objects import Config

    def snap(o):
        x = o.__xpm__
        return ({k: (("cfg", id(v)) if isinstance(v, Config) else repr(v)) for k, v in x.values.items()},
                [id(p) for p in x.pre_tasks], [id(p) for p in x.init_tasks], x.meta)

    for l, o in sorted(objs.items()):
        n = G["nodes"][l]
        cls = SCHEMA["out"] if "output_of" in n else SCHEMA[n["cls"]]
        before = snap(o)
        try:
            c = copyconfig(o)
        except Exception as e:  # noqa
            out["problems"].append({"kind": "copyconfig-raises", "label": l, "cls": cls["tid"], "error": f"{type(e).__name__}: {e}"})
            continue
        out["attempts"] += 1
        ops = []
        for f in cls["fields"]:
            val = 5 if "output_of" in n else _valid_alt(G, B, l, f)
            if isinstance(val, str) and val == "SKIP":
                continue
            ops.append((f"assign {f['name']}", lambda c=c, f=f, val=val: setattr(c, f["name"], val)))
        ops.append(("setmeta", lambda c=c: setmeta(c, True)))
        ops.append(("add_pretasks", lambda c=c: c.add_pretasks(U.PreT(k=9))))
        ops.append(("add_pretasks again", lambda c=c: c.add_pretasks(U.PreT(k=7))))
        for what, op in ops:
            try:
                op()
            except Exception:  # noqa
                pass    # (whether the copy accepts it is not the question here)
            now = snap(o)
            if now != before:
                part = [name for name, a, b in zip(("values", "pre-tasks", "init-tasks", "meta"), before, now) if a != b]
                out["problems"].append({"kind": "frozen-changed-through-copy", "label": l, "cls": cls["tid"], "op": what.split()[0], "part": part})
                before = now
            check_ids(f"copy of {l}: {what}")
    return out


# ---------------------------------------------------------------------------------------------- C17: generated paths
def _gen_paths(G, B, presealed):
    """(label, field) -> generated path, for nodes sealed by the root's submission."""
    out = {}
    for l, n in G["nodes"].items():
        if "output_of" in n or l in presealed:
            continue
        o = B.tasks[l] if l in B.tasks else B.objs[l]
        for f in SCHEMA[n["cls"]]["fields"]:
            if f["kind"] == "genpath":
                out[(l, f["name"])] = o.__xpm__.values.get(f["name"])
    return out


def eval_c17(item):
    from pathlib import Path
    G = item["G"]
    out = {"paths": 0, "problems": [], "sig": sig_digest(G), "positions": []}
    root = G["root"]
    if not (is_task(G, root) and not Gr.has_cycle(G)):
        return out
    runs = []
    try:
        # the same content submitted again, built the same way and in every other construction style / order (keyword
        # arguments or attribute assignment, forward or reverse order): the order of assignment is not content
        for style, rev in (("kw", False), ("kw", False), ("kw", True), ("assign", False), ("assign", True)):
            B = Gr.build(G, style, rev)
            presealed = {l for l in G["nodes"] if "output_of" not in G["nodes"][l]
                         and (B.tasks[l] if l in B.tasks else B.objs[l]).__xpm__._sealed}
            Gr.seal_root(G, B)
            job = B.tasks[root].__xpm__.job
            runs.append((job.path, _gen_paths(G, B, presealed)))
    except Exception as e:  # noqa
        out["problems"].append({"kind": "raises", "error": f"{type(e).__name__}: {e}", "tb": traceback.format_exc()[-1200:]})
        return out
    jobpath, paths = runs[0]
    out["paths"] = len(paths)
    seen = {}
    for (l, f), p in sorted(paths.items()):
        if p is None:
            out["problems"].append({"kind": "not-generated", "label": l, "field": f})
            continue
        p = Path(p)
        try:
            rel = p.resolve().relative_to(Path(jobpath).resolve())
            out["positions"].append(str(rel))
        except ValueError:
            out["problems"].append({"kind": "outside-job-directory", "label": l, "field": f, "path": str(p), "job": str(jobpath)})
            continue
        if str(rel) in seen:
            out["problems"].append({"kind": "same-path", "a": list(seen[str(rel)]), "b": [l, f], "path": str(rel)})
        seen[str(rel)] = (l, f)
    r1 = {k: (str(Path(v).relative_to(jobpath)) if v is not None and Path(v).is_relative_to(jobpath) else str(v)) for k, v in paths.items()}
    out["rel"] = {f"{k[0]}.{k[1]}": v for k, v in sorted(r1.items())}
    out["job"] = str(Path(jobpath).relative_to(Path(jobpath).parent.parent))
    for how, (j2, p2) in zip(("same", "kw-reversed", "assign", "assign-reversed"), runs[1:]):
        r2 = {k: (str(Path(v).relative_to(j2)) if v is not None and Path(v).is_relative_to(j2) else str(v)) for k, v in p2.items()}
        if r1 != r2 or str(jobpath) != str(j2):
            out["problems"].append({"kind": "not-reproducible", "how": how, "first": {f"{k[0]}.{k[1]}": v for k, v in r1.items()},
                                    "second": {f"{k[0]}.{k[1]}": v for k, v in r2.items()}})
            break
    return out


# ---------------------------------------------------------------------------------------------- C12 / C13: reload and instances
TID2CLS = {}


def _cls_key_of(obj, instance):
    """Schema key of a reloaded object (by python class name)."""
    import universe.g as U
    if not TID2CLS:
        for k, c in SCHEMA.items():
            TID2CLS[c["py"]] = k
    for k in type(obj).__mro__:
        if k.__name__ in TID2CLS:
            return TID2CLS[k.__name__]
    raise KeyError(type(obj).__mro__)


def _val_desc(v, label_of):
    from enum import Enum
    from pathlib import Path
    from experimaestro.core.objects import Config
    if v is None or isinstance(v, (bool, int, float, str)):
        return v
    if isinstance(v, Enum):
        return {"enum": v.name}
    if isinstance(v, Path):
        return {"path": str(v)}
    if isinstance(v, list):
        return [_val_desc(x, label_of) for x in v]
    if isinstance(v, dict):
        return {"dict": {k: _val_desc(x, label_of) for k, x in v.items()}}
    if isinstance(v, Config):
        return {"ref": label_of(v)}
    return {"UNKNOWN": repr(v)}


def extract(root_obj, instance=False, with_generated=False):
    """Description of a (re)loaded graph: walks real objects.  For runtime instances only values and wiring exist."""
    nodes, labels, todo = {}, {}, []

    def label_of(o):
        if id(o) not in labels:
            labels[id(o)] = f"x{len(labels)}"
            todo.append(o)
        return labels[id(o)]

    label_of(root_obj)
    keep = []
    while todo:
        o = todo.pop()
        keep.append(o)
        l = labels[id(o)]
        key = _cls_key_of(o, instance)
        if not instance:
            x = o.__xpm__
            if x.task is not None and x.task is not o:
                nodes[l] = {"output_of": label_of(x.task), "v": x.values.get("v")}
                if x.pre_tasks:
                    nodes[l]["pre"] = [label_of(p) for p in x.pre_tasks]
                continue
        n = {"cls": key, "args": {}, "meta": None, "pre": [], "init": []}
        for f in SCHEMA[key]["fields"]:
            if f["generated"] and not with_generated:
                continue
            if instance:
                v = getattr(o, f["name"], "<missing>")
            else:
                v = o.__xpm__.values.get(f["name"], "<missing>")
            n["args"][f["name"]] = _val_desc(v, label_of)
        if not instance:
            n["meta"] = o.__xpm__.meta
            n["pre"] = [label_of(p) for p in o.__xpm__.pre_tasks]
            n["init"] = [label_of(p) for p in o.__xpm__.init_tasks]
        nodes[l] = n
    return {"root": "x0", "nodes": nodes}, keep


def normalize(G, instance=False, root_init=True):
    """Fills every parameter explicitly (schema defaults, coercions) so that two descriptions can be compared."""
    import copy
    H = {"root": G["root"], "nodes": {}}
    for l in R.reachable(G, G["root"]) if not instance else _reach_args(G):
        n = G["nodes"][l]
        if "output_of" in n:
            if instance:
                # at run time an output is a plain Out object
                t = G["nodes"][n["output_of"]]
                H["nodes"][l] = {"cls": "out", "args": {"v": t["args"].get("x", 0)}, "meta": None, "pre": [], "init": []}
            else:
                H["nodes"][l] = {"output_of": n["output_of"]}
                if n.get("pre"):
                    H["nodes"][l]["pre"] = list(n["pre"])
            continue
        args = R.node_args(G, l)
        for f in SCHEMA[n["cls"]]["fields"]:
            if not f["generated"]:
                args[f["name"]] = R._coerce(f["kind"], args[f["name"]])
        m = {"cls": n["cls"], "args": args, "meta": None if instance else n.get("meta"),
             "pre": [] if instance else list(n.get("pre", [])),
             "init": [] if (instance or (l == G["root"] and not root_init)) else list(n.get("init", []))}
        H["nodes"][l] = m
    return H


def _reach_args(G):
    """Reachability through parameter values only (what a runtime object graph shows)."""
    seen, stack = [], [G["root"]]
    while stack:
        l = stack.pop()
        if l in seen:
            continue
        seen.append(l)
        n = G["nodes"][l]
        if "output_of" in n:
            continue
        for v in n["args"].values():
            stack.extend(R.refs_in(v))
    return seen


def _canon_json(G):
    from .genspace import canon
    return json.dumps(canon(G), sort_keys=True)


def _base_cls(G):
    """Loaded objects of deprecated / twin classes keep their own python class: compare as is."""
    return G


def eval_c12(item):
    """Routes: json (the objects list of params.json, config mode), json-instance, state (state_dict/from_state_dict),
    save (save/load through a directory), params (real params.json written by GENERATE_ONLY submit, read by run())."""
    import copy
    import tempfile
    from pathlib import Path
    from experimaestro.core.objects import ConfigInformation
    from experimaestro.core.context import SerializationContext
    from experimaestro.core import serialization as ser
    import universe.g as U
    G, route = item["G"], item["route"]
    out = {"problems": [], "sig": sig_digest(G), "done": 0}
    root = G["root"]
    submittable = is_task(G, root) and not Gr.has_cycle(G)
    try:
        B = Gr.build(G)
        if submittable:
            Gr.seal_root(G, B)
        elif not Gr.has_cycle(G) or True:
            from experimaestro.xpmutils import DirectoryContext
            B.objs[root].__xpm__.seal(DirectoryContext(Path(Gr._STATE["dir"]) / "sealed"))
        robj = B.tasks[root] if root in B.tasks else B.objs[root]
        orig_id = Gr.ident(robj)
        root_init = submittable
        orig_nodes = _node_ids(robj)
        if route in ("json", "json-instance", "json-keepid"):
            data = json.loads(robj.__xpm__.__json__())
            if route == "json":
                loaded = ConfigInformation.fromParameters(data, as_instance=False, discard_id=True)
            elif route == "json-keepid":
                # the stored identifiers are kept by the loader (the default): they must be the content-determined ones
                loaded = ConfigInformation.fromParameters(data, as_instance=False)
            else:
                U.LOG.clear()
                loaded = ConfigInformation.fromParameters(data, as_instance=True)
        elif route == "state":
            state = json.loads(json.dumps(ser.state_dict(SerializationContext(), robj)))
            loaded = ser.from_state_dict(state)
        elif route == "save":
            d = Path(tempfile.mkdtemp(prefix="sv", dir=Gr._STATE["dir"]))
            ser.save(robj, d)
            loaded = ser.load(d)
            import shutil
            shutil.rmtree(d, ignore_errors=True)
        elif route == "container":
            # a list / dict of configurations saved in one go (sharing across the elements must survive)
            others = [B.objs[l] for l in sorted(G["nodes"]) if l in B.objs and l != root][:2]
            state = json.loads(json.dumps(ser.state_dict(SerializationContext(), {"r": robj, "o": others})))
            back = ser.from_state_dict(state)
            loaded = back["r"]
            ex, _k = extract(loaded)
            for i, l in enumerate([l for l in sorted(G["nodes"]) if l in B.objs and l != root][:2]):
                # the same node reached from the container must be the same object as reached from the root
                pass
        else:
            raise KeyError(route)
    except Exception as e:  # noqa
        out["problems"].append({"kind": "raises", "route": route, "error": f"{type(e).__name__}: {e}", "tb": traceback.format_exc()[-1500:]})
        return out
    out["done"] = 1
    instance = route == "json-instance"
    try:
        ex, keep = extract(loaded, instance=instance)
        want = _canon_json(normalize(G, instance=instance, root_init=root_init))
        got = _canon_json(ex)
        if want != got:
            out["problems"].append({"kind": "not-isomorphic", "route": route, "diff": _first_diff(json.loads(want), json.loads(got))})
        if not instance:
            new_id = Gr.ident(loaded)
            if new_id != orig_id:
                out["problems"].append({"kind": "identifier-differs", "route": route, "before": orig_id, "after": new_id})
            # full and raw identifiers of every node of the reloaded graph (whatever the loader cached), and of a
            # configuration that embeds the reloaded root
            new_nodes = _node_ids(loaded)
            if sorted(new_nodes) != sorted(orig_nodes):
                diff = sorted(set(orig_nodes) ^ set(new_nodes))[:4]
                out["problems"].append({"kind": "identifier-differs", "route": route, "where": "nodes", "before": orig_id, "after": new_id, "diff": None, "nodes": diff})
            emb = _embed(robj), _embed(loaded)
            if emb[0] is not None and emb[0] != emb[1]:
                out["problems"].append({"kind": "identifier-differs", "route": route, "where": "embedding", "before": emb[0], "after": emb[1]})
    except Exception as e:  # noqa
        out["problems"].append({"kind": "compare-raises", "route": route, "error": f"{type(e).__name__}: {e}", "tb": traceback.format_exc()[-1500:]})
    return out


def _node_ids(root_obj):
    """[(type id, full identifier, raw identifier)] of every configuration reachable through parameter values, pre-tasks
    and init tasks (task outputs: the output object only)."""
    from experimaestro.core.objects import Config
    seen, todo, out = set(), [root_obj], []
    while todo:
        o = todo.pop()
        if isinstance(o, (list, tuple)):
            todo.extend(o)
            continue
        if isinstance(o, dict):
            todo.extend(o.values())
            continue
        if not isinstance(o, Config) or id(o) in seen:
            continue
        seen.add(id(o))
        x = o.__xpm__
        out.append((str(o.__xpmtype__.identifier), x.identifier.all.hex(), x.raw_identifier.all.hex()))
        todo.extend(x.values.values())
        todo.extend(x.pre_tasks)
        todo.extend(x.init_tasks)
    return out


def _embed(o):
    """Identifier of a fresh configuration that takes `o` as a parameter (None when no universe class accepts it)."""
    import universe.g as U
    try:
        if isinstance(o, U.Leaf):
            return Gr.ident(U.Box(child=o, sa="emb"))
        if isinstance(o, U.Box):
            return Gr.ident(U.Ring(v=9, box=o))
        if isinstance(o, U.Ring):
            return Gr.ident(U.Ring(v=9, alt=o))
        if isinstance(o, U.Holder):
            return Gr.ident(U.Holder(inner=o))
    except Exception as e:  # noqa
        return f"raises {type(e).__name__}: {e}"
    return None


def _first_diff(a, b, path=""):
    if type(a) is not type(b):
        return f"{path}: {a!r} != {b!r}"
    if isinstance(a, dict):
        for k in sorted(set(a) | set(b)):
            if k not in a or k not in b:
                return f"{path}/{k}: {'missing in expected' if k not in a else 'missing in reloaded'} ({(b if k not in a else a)[k]!r})"
            d = _first_diff(a[k], b[k], f"{path}/{k}")
            if d:
                return d
        return None
    if isinstance(a, list):
        if len(a) != len(b):
            return f"{path}: length {len(a)} != {len(b)}"
        for i, (x, y) in enumerate(zip(a, b)):
            d = _first_diff(x, y, f"{path}[{i}]")
            if d:
                return d
        return None
    return None if a == b else f"{path}: {a!r} != {b!r}"


# ---------------------------------------------------------------------------------------------- C13
def _reach_runtime(G, root_init):
    """Labels that become runtime objects with instance(): parameters, pre-tasks and (attached) init tasks, recursively;
    the producing task of an output is not followed."""
    seen, stack = [], [G["root"]]
    while stack:
        l = stack.pop()
        if l in seen:
            continue
        seen.append(l)
        n = G["nodes"][l]
        if "output_of" in n:
            stack.extend(n.get("pre", []))
            continue
        for v in n["args"].values():
            stack.extend(R.refs_in(v))
        stack.extend(n.get("pre", []))
        if l != G["root"] or root_init:
            stack.extend(n.get("init", []))
    return seen


def _reach_saved(G, root_init):
    """Labels written by __get_objects__: everything reachable, the root's init tasks only once they are attached."""
    if root_init or not G["nodes"][G["root"]].get("init"):
        return R.reachable(G, G["root"])
    import copy
    H = copy.deepcopy(G)
    H["nodes"][G["root"]]["init"] = []
    return R.reachable(H, G["root"])


def eval_c13(item):
    from pathlib import Path
    from experimaestro.core.objects import ConfigInformation
    from experimaestro.xpmutils import DirectoryContext
    import universe.g as U
    G, route = item["G"], item["route"]
    out = {"problems": [], "sig": sig_digest(G), "objects": 0}
    root = G["root"]
    submittable = is_task(G, root) and not Gr.has_cycle(G)
    try:
        B = Gr.build(G)
        if submittable:
            Gr.seal_root(G, B)
        robj = B.tasks[root] if root in B.tasks else B.objs[root]
        U.LOG.clear()
        if route == "instance":
            inst = robj.instance(DirectoryContext(Path(Gr._STATE["dir"]) / "inst"))
        elif route == "store":
            # the public ObjectStore shared by several instance() calls: first a sub-configuration, then the root, then the
            # root again - everything must still be built / initialised / executed once
            from experimaestro.core.objects import ObjectStore
            store = ObjectStore()
            ctx = DirectoryContext(Path(Gr._STATE["dir"]) / "inst")
            subs = [l for l in _reach_runtime(G, submittable) if l != root and "output_of" not in G["nodes"][l] and l in B.objs]
            if subs:
                sub_obj = B.objs[subs[-1]]
                first = sub_obj.instance(ctx, objects=store)
            inst = robj.instance(ctx, objects=store)
            again = robj.instance(ctx, objects=store)
            if again is not inst:
                out["problems"].append({"kind": "store-returns-other-object"})
            if subs and store.retrieve(id(sub_obj)) is not first:
                out["problems"].append({"kind": "store-rebuilt-sub-object"})
        else:
            if not robj.__xpm__._sealed:
                robj.__xpm__.seal(DirectoryContext(Path(Gr._STATE["dir"]) / "sealed"))
            data = json.loads(robj.__xpm__.__json__())
            inst = ConfigInformation.fromParameters(data, as_instance=True)
        log = list(U.LOG)
        U.LOG.clear()
    except Exception as e:  # noqa
        out["problems"].append({"kind": "raises", "error": f"{type(e).__name__}: {e}", "tb": traceback.format_exc()[-1500:]})
        return out
    try:
        ex, keep = extract(inst, instance=True)
        want = _canon_json(normalize(G, instance=True))
        got = _canon_json(ex)
        if want != got:
            out["problems"].append({"kind": "wiring", "diff": _first_diff(json.loads(want), json.loads(got))})
        posts = [e for e in log if e[0] == "post"]
        execs = [e for e in log if e[0] == "exec"]
        out["objects"] = len(posts)
        ids = [id(e[1]) for e in posts]
        if len(ids) != len(set(ids)):
            dup = next(e for e in posts if ids.count(id(e[1])) > 1)
            out["problems"].append({"kind": "post-init-twice", "cls": type(dup[1]).__name__})
        for o in keep:
            if id(o) not in ids:
                out["problems"].append({"kind": "post-init-missing", "cls": type(o).__name__})
        for e in posts:
            missing = [k for k, v in e[2].items() if not v]
            if missing:
                out["problems"].append({"kind": "post-init-before-parameters", "cls": type(e[1]).__name__, "missing": missing})
        # number of runtime objects
        if route in ("instance", "store"):
            expected_objects = len(_reach_runtime(G, submittable))
        else:
            expected_objects = len(_reach_saved(G, submittable))
        if len(set(ids)) != expected_objects:
            out["problems"].append({"kind": "object-count", "created": len(set(ids)), "configurations": expected_objects})
        # pre-tasks once each; init tasks (params route) once each, in order, after all pre-tasks
        if route in ("instance", "store"):
            pre_labels = [p for l in _reach_runtime(G, submittable) for p in G["nodes"][l].get("pre", [])]
        else:
            pre_labels = [p for l in _reach_saved(G, submittable) for p in G["nodes"][l].get("pre", [])]
        pre_labels = list(dict.fromkeys(pre_labels))
        sig_of = lambda p: (SCHEMA[G["nodes"][p]["cls"]]["tid"], G["nodes"][p]["args"].get("k", 0))
        want_pre = sorted(sig_of(p) for p in pre_labels)
        init_labels = G["nodes"][root].get("init", []) if (route == "params" and submittable) else []
        want_init = [sig_of(p) for p in init_labels]
        # the role of an executed lightweight task is its place in the description (any class can play either role):
        # first all pre-tasks (in any order), then the init tasks in their order
        observed = [(SCHEMA[_cls_key_of(e[1], True)]["tid"], e[1].k) for e in execs]
        got_pre, got_init = sorted(observed[:len(want_pre)]), observed[len(want_pre):]
        if got_pre != want_pre or (len(observed) < len(want_pre)):
            out["problems"].append({"kind": "pre-task-executions", "executed": observed, "attached": want_pre, "init": want_init})
        elif got_init != want_init:
            out["problems"].append({"kind": "init-task-executions", "executed": observed, "attached_pre": want_pre, "init": want_init})
        exec_ids = [id(e[1]) for e in execs]
        if len(exec_ids) != len(set(exec_ids)):
            out["problems"].append({"kind": "task-executed-twice"})
    except Exception as e:  # noqa
        out["problems"].append({"kind": "compare-raises", "error": f"{type(e).__name__}: {e}", "tb": traceback.format_exc()[-1500:]})
    return out


# ---------------------------------------------------------------------------------------------- C04 (static half): collected dependencies
def expected_upstream(G):
    """Tasks the root depends on directly: task-typed values (or outputs of tasks) reachable from its parameters, pre-tasks
    and init tasks through non-task configurations."""
    root = G["root"]
    out, seen = set(), set()
    stack = [root]
    while stack:
        l = stack.pop()
        if l in seen:
            continue
        seen.add(l)
        n = G["nodes"][l]
        if l != root:
            if "output_of" in n:
                out.add(n["output_of"])
                # pre-tasks attached to the output configuration are walked like everywhere else
                stack.extend(n.get("pre", []))
                continue
            if is_task(G, l):
                out.add(l)
                continue
        for v in n["args"].values():
            stack.extend(R.refs_in(v))
        stack.extend(n.get("pre", []))
        stack.extend(n.get("init", []))
    return out


def eval_deps(item):
    G = item["G"]
    root = G["root"]
    if not (is_task(G, root) and not Gr.has_cycle(G)):
        return {"skip": True}
    try:
        B = Gr.build(G)
        Gr.seal_root(G, B)
        job = B.tasks[root].__xpm__.job
        got = set()
        for dep in job.dependencies:
            origin = dep.origin
            lab = next((l for l, t in B.tasks.items() if t.__xpm__.job is origin), None)
            got.add(lab or f"?{origin}")
        want = expected_upstream(G)
        return {"skip": False, "got": sorted(got), "want": sorted(want), "sig": sig_digest(G)}
    except Exception as e:  # noqa
        return {"skip": False, "error": f"{type(e).__name__}: {e}", "tb": traceback.format_exc()[-1200:], "sig": sig_digest(G)}


# ---------------------------------------------------------------------------------------------- C12: the real params.json route
def eval_c12_real(item):
    """GENERATE_ONLY submission of the root task writes a real job directory (CommandParameters -> params.json); the
    real run() of run.py loads it; what the task body sees (values, wiring, tags) is compared with the description."""
    import universe.g as U
    import experimaestro.run as xrun
    import experimaestro.taskglobals as tg
    from experimaestro.scheduler.workspace import RunMode
    G = item["G"]
    out = {"problems": [], "sig": sig_digest(G), "done": 0}
    root = G["root"]
    if not (is_task(G, root) and not Gr.has_cycle(G)):
        return out
    try:
        # an earlier generation of the same job (same identifier, hence same directory) with other values of what is outside
        # the signature (Meta parameter, tags): the files written for the submission that follows must replace it
        G1 = json.loads(json.dumps(G))
        G1["nodes"][root]["tags"] = {"x": 1, "old": "t"}
        G1["nodes"][root].setdefault("args", {})["code"] = 7
        B1 = Gr.build(G1)
        Gr.submit(G1, B1, root, run_mode=RunMode.GENERATE_ONLY)
        first_path = B1.tasks[root].__xpm__.job.path
        G2 = json.loads(json.dumps(G))
        G2["nodes"][root]["tags"] = {"x": 5, "name": "v"}
        B = Gr.build(G2)
        Gr.submit(G2, B, root, run_mode=RunMode.GENERATE_ONLY)
        job = B.tasks[root].__xpm__.job
        if job.path != first_path:
            out["problems"].append({"kind": "other-directory-for-neutral-change", "first": str(first_path), "second": str(job.path)})
        params = job.path / "params.json"
        if not params.is_file():
            out["problems"].append({"kind": "no-params-file"})
            return out
        seen = {}
        cls = type(B.tasks[root]).__xpmtype__.basetype
        orig = cls.execute

        def execute(self):
            seen["self"] = self
            seen["tags"] = dict(getattr(self, "__tags__", {}))
        cls.execute = execute
        oldp, env = xrun.progress, tg.Env.instance()
        old_env = (env.wspath, env.taskpath)
        xrun.progress = lambda *a, **k: None
        U.LOG.clear()
        try:
            with Gr.quiet():
                xrun.run(params)
        finally:
            cls.execute = orig
            xrun.progress = oldp
            env.wspath, env.taskpath = old_env
        out["done"] = 1
        if "self" not in seen:
            out["problems"].append({"kind": "body-not-called"})
            return out
        ex, keep = extract(seen["self"], instance=True)
        want = _canon_json(normalize(G2, instance=True))
        got = _canon_json(ex)
        if want != got:
            out["problems"].append({"kind": "task-observes-other-values", "diff": _first_diff(json.loads(want), json.loads(got))})
        if seen["tags"] != {"x": 5, "name": "v"}:
            out["problems"].append({"kind": "task-observes-other-tags", "tags": seen["tags"]})
        import shutil
        shutil.rmtree(job.path, ignore_errors=True)
    except Exception as e:  # noqa
        out["problems"].append({"kind": "raises", "error": f"{type(e).__name__}: {e}", "tb": traceback.format_exc()[-1500:]})
    return out


# ---------------------------------------------------------------------------------------------- C03: marked own parameter

def eval_marked(item):
    """C03 add-on family: a task whose task_outputs marks one of its *own* parameter configurations (`dep(self.leafp)`) - the
    marked object was sealed and identified (the task identifier is computed during submit) before it becomes the
    output of the task.  Every (embedder, leaf value, producing task or none, history) combination is built with the real
    API; returns [(signature, full id, raw id)] for the grouping oracle of C03."""
    import itertools
    import universe.g as U
    Gr.ensure_init()
    rows = []
    embedders = {
        "self": lambda v: v,
        "box.child": lambda v: U.Box(child=v),
        "box.ochild": lambda v: U.Box(child=U.Leaf(i=0), ochild=v),
        "box.lst": lambda v: U.Box(child=U.Leaf(i=0), lst=[v]),
        "box.dct": lambda v: U.Box(child=U.Leaf(i=0), dct={"a": v}),
        "box.lll": lambda v: U.Box(child=U.Leaf(i=0), lll=[[v]]),
        "holder.leaf": lambda v: U.Holder(leaf=v),
        "job.cfg": lambda v: U.Job(cfg=U.Box(child=v)),
        "pre.leaf": lambda v: U.PreT(leaf=v),
    }
    producers = [None] + [(cls, x) for cls in ("JobMark", "JobMarkx") for x in (0, 1)]
    # history: is the identifier of the leaf requested before the submission / after it (before embedding) / never
    for (ename, emb), i, prod, peek in itertools.product(embedders.items(), (0, 1), producers, ("never", "before", "after", "both")):
        try:
            leaf = U.Leaf(i=i)
            if peek in ("before", "both"):
                Gr._peek(leaf)
            if prod is not None:
                task = getattr(U, prod[0])(x=prod[1], leafp=leaf)
                with Gr.quiet():
                    v = task.submit()
                if v is not leaf:
                    rows.append({"error": f"submit returned another object than the marked parameter ({prod})"})
                    continue
            else:
                v = leaf
                if peek in ("after", "both"):
                    from experimaestro.xpmutils import DirectoryContext
                    v.__xpm__.seal(DirectoryContext(Path(Gr._STATE["dir"]) / "sealed"))
            if peek in ("after", "both"):
                Gr._peek(v)
            obj = emb(v)
            rows.append({"sig": repr((ename, i, prod)), "hist": peek, "id": Gr.ident(obj), "raw": Gr.raw_ident(obj)})
        except Exception as e:  # noqa
            rows.append({"error": f"{type(e).__name__}: {e}", "case": repr((ename, i, prod, peek)), "tb": traceback.format_exc()[-800:]})
    return rows


def eval_datapath(item):
    """C12 add-on family: configurations carrying data files (DataPath) written with save / serialize and loaded back - into a fresh
    directory, and again into a directory that already holds an earlier save (of the same object, of the same object whose data file
    was replaced atomically, or of another object); one or two data files (same parameter name in two configurations of the graph,
    same or different files).  Loaded values and data must be the configured ones, and the user's source files must be untouched."""
    import shutil
    import universe.g as U
    from experimaestro.core import serialization as ser
    from experimaestro.core.objects import ConfigInformation
    Gr.ensure_init()
    out = {"cases": 0, "problems": []}
    base = Path(tempfile.mkdtemp(prefix="dp", dir=Gr._STATE["dir"]))
    sources = {}

    def src(name, text):
        p = base / "src" / name
        p.parent.mkdir(parents=True, exist_ok=True)
        tmp = p.with_suffix(".tmp")
        tmp.write_text(text)
        tmp.replace(p)          # atomic replacement: a new inode
        sources[p] = text
        return p

    shapes = {
        "self": lambda v, p, q: U.Dat(v=v, data=p),
        "boxed": lambda v, p, q: U.DatBox(d=U.Dat(v=v, data=p)),
        "boxed-two-files": lambda v, p, q: U.DatBox(d=U.Dat(v=v, data=p), e=U.Dat(v=v + 10, data=q)),
        "boxed-one-file-twice": lambda v, p, q: U.DatBox(d=U.Dat(v=v, data=p), e=U.Dat(v=v + 10, data=p)),
        # a list / a dictionary of configurations is saved (route save only: serialize is a method of one configuration)
        "list-two-files": lambda v, p, q: [U.Dat(v=v, data=p), U.Dat(v=v + 10, data=q)],
        "dict-two-files": lambda v, p, q: {"a": U.Dat(v=v, data=p), "b": U.Dat(v=v + 10, data=q)},
    }

    def read(obj, shape):
        if shape.startswith("list"):
            return [(x.v, Path(x.data).read_text()) for x in obj]
        if shape.startswith("dict"):
            return [(obj[k].v, Path(obj[k].data).read_text()) for k in sorted(obj)]
        if shape == "self":
            return [(obj.v, Path(obj.data).read_text())]
        return [(d.v, Path(d.data).read_text()) for d in (obj.d, obj.e) if d is not None]

    routes = {
        "save": (lambda o, d: ser.save(o, d), lambda d: ser.load(d)),
        "serialize": (lambda o, d: o.__xpm__.serialize(d), lambda d: ConfigInformation.deserialize(d)),
    }
    try:
        for (rname, (save, load)), (shape, mk) in itertools.product(routes.items(), shapes.items()):
            if rname == "serialize" and shape.split("-")[0] in ("list", "dict"):
                continue
            for history in ("fresh", "again-same", "again-other-content", "again-other-object"):
                out["cases"] += 1
                tag = f"{rname}-{shape}-{history}"
                d = base / tag
                d.mkdir()
                sources.clear()
                try:
                    p, q = src(f"{tag}.bin", "first"), src(f"{tag}-q.bin", "first-q")
                    obj = mk(1, p, q)
                    save(obj, d)
                    if history == "again-same":
                        save(mk(1, p, q), d)
                    elif history == "again-other-content":
                        p, q = src(f"{tag}.bin", "second"), src(f"{tag}-q.bin", "second-q")
                        obj = mk(2, p, q)
                        save(obj, d)
                    elif history == "again-other-object":
                        p, q = src(f"{tag}-b.bin", "other"), src(f"{tag}-bq.bin", "other-q")
                        obj = mk(3, p, q)
                        save(obj, d)
                    want = read(obj, shape)
                    loaded = load(d)
                    loaded = loaded[0] if isinstance(loaded, tuple) else loaded
                    got = read(loaded, shape)
                    if got != want:
                        out["problems"].append({"kind": "data-file-differs", "route": rname, "shape": shape, "history": history, "got": got, "want": want})
                    changed = sorted(s.name for s, text in sources.items() if s.read_text() != text)
                    if changed:
                        out["problems"].append({"kind": "source-file-overwritten", "route": rname, "shape": shape, "history": history, "files": changed})
                except Exception as e:  # noqa
                    out["problems"].append({"kind": "raises", "route": rname, "shape": shape, "history": history, "error": f"{type(e).__name__}: {e}"[:300]})
        # sealed configurations (after instance(), or loaded) written several times: first without a directory (state dictionary),
        # then into two different directories, and - for a box - the child alone before the whole
        from experimaestro.core.context import SerializationContext
        from experimaestro.xpmutils import DirectoryContext
        for (rname, (save, load)), shape, how in itertools.product(routes.items(), ("self", "boxed", "boxed-two-files"), ("instance", "loaded")):
            out["cases"] += 1
            tag = f"sealed-{rname}-{shape}-{how}"
            sources.clear()
            try:
                p, q = src(f"{tag}.bin", "first"), src(f"{tag}-q.bin", "first-q")
                obj = shapes[shape](1, p, q)
                want = read(obj, shape)
                if how == "instance":
                    obj.instance(DirectoryContext(base / f"{tag}-ctx"))
                else:
                    d0 = base / f"{tag}-d0"
                    d0.mkdir()
                    save(obj, d0)
                    obj = load(d0)
                    obj = obj[0] if isinstance(obj, tuple) else obj
                ser.state_dict(SerializationContext(), obj)
                if shape != "self":
                    dc = base / f"{tag}-child"
                    dc.mkdir()
                    save(obj.d, dc)
                for n in (1, 2):
                    d = base / f"{tag}-d{n}"
                    d.mkdir()
                    save(obj, d)
                    loaded = load(d)
                    loaded = loaded[0] if isinstance(loaded, tuple) else loaded
                    paths = [Path(x.data) for x in ([loaded] if shape == "self" else [loaded.d] + ([loaded.e] if loaded.e is not None else []))]
                    outside = [str(x) for x in paths if d not in x.parents]
                    if outside:
                        out["problems"].append({"kind": "data-file-not-in-saved-directory", "route": rname, "shape": shape, "history": f"sealed:{how}:{n}", "paths": outside})
                        continue
                    got = read(loaded, shape)
                    if got != want:
                        out["problems"].append({"kind": "data-file-differs", "route": rname, "shape": shape, "history": f"sealed:{how}:{n}", "got": got, "want": want})
            except Exception as e:  # noqa
                out["problems"].append({"kind": "raises", "route": rname, "shape": shape, "history": f"sealed:{how}", "error": f"{type(e).__name__}: {e}"[:300]})
    finally:
        shutil.rmtree(base, ignore_errors=True)
    return out


# ---------------------------------------------------------------------------------------------- C02: configuration-valued defaults

def eval_cfgdefault(item):
    """C02/C01 add-on family: parameters whose *default is a configuration* (universe.g.Dbox.d = Leaf(i=3), JobD.cfg = Dbox()).
    Every way of writing the default (unset, explicit equal configuration, equal with other ignored values, with explicit
    defaults below) x class / extended twin x embedding x sealing history must give ONE identifier per content; a different
    content must give another one.  Returns rows {content, how, id} for grouping."""
    import universe.g as U
    from experimaestro.xpmutils import DirectoryContext
    Gr.ensure_init()
    rows = []
    writings = {
        # content "default"
        "unset": ("default", lambda: {}),
        "explicit": ("default", lambda: {"d": U.Leaf(i=3)}),
        "explicit+meta": ("default", lambda: {"d": U.Leaf(i=3, m=9, opt="z")}),
        "explicit+path": ("default", lambda: {"d": U.Leaf(i=3, p=Path("/other"))}),
        "explicit+defaults-below": ("default", lambda: {"d": U.Leaf(i=3, f=0.5, s="d", o=None)}),
        # other contents
        "other-i": ("i4", lambda: {"d": U.Leaf(i=4)}),
        "other-s": ("i3sx", lambda: {"d": U.Leaf(i=3, s="x")}),
        # a meta-flagged value is outside the signature, as is a value equal to the default: same content
        "metaflag": ("default", lambda: {"d": setmeta_(U.Leaf(i=3), True)}),
    }

    def setmeta_(c, v):
        from experimaestro import setmeta
        return setmeta(c, v)

    embedders = {
        "self": lambda mk: mk(),
        "job.cfg": lambda mk: U.JobD(x=1, cfg=mk()),
    }
    histories = ("unsealed", "sealed", "peek+sealed", "instance")
    for cname, cls in (("Dbox", U.Dbox), ("DboxV2", U.DboxV2)):
        for wname, (content, args) in writings.items():
            for ename in ("self", "job.cfg"):
                for hist in histories:
                    try:
                        mk = lambda: cls(**args())
                        obj = embedders[ename](mk)
                        if hist == "peek+sealed":
                            Gr._peek(obj)
                        if hist in ("sealed", "peek+sealed"):
                            if ename == "job.cfg":
                                with Gr.quiet():
                                    obj.submit()
                            else:
                                obj.__xpm__.seal(DirectoryContext(Path(Gr._STATE["dir"]) / "sealed"))
                        elif hist == "instance":
                            obj.instance(DirectoryContext(Path(Gr._STATE["dir"]) / "inst"))
                        # (the default of JobD.cfg is an instance of Dbox: the extended twin is not "the same class, later" there)
                        row = {"content": f"{ename}:{content}" + (f":{cname}" if ename == "job.cfg" else ""), "writing": wname, "hist": hist,
                               "how": f"{cname}:{wname}:{hist}", "id": Gr.ident(obj), "raw": Gr.raw_ident(obj)}
                        if ename == "job.cfg" and hist in ("sealed", "peek+sealed"):
                            row["relpath"] = str(obj.__xpm__.job.relpath)
                        rows.append(row)
                    except Exception as e:  # noqa
                        rows.append({"error": f"{type(e).__name__}: {e}", "case": f"{cname}:{wname}:{ename}:{hist}", "tb": traceback.format_exc()[-800:]})
    return rows
