"""Worker-side evaluation functions of Engine G (run inside spawned workers, real experimaestro code)."""
from __future__ import annotations

import hashlib
import itertools
import json
import traceback

from . import graphs as Gr
from . import refmodel as R
from .genspace import is_task, node_cls
from .refmodel import SCHEMA


def init():
    Gr.worker_init()
    probs = R.check_schema()
    if probs:
        # reported by the checks as violations of C02 (the flags decide what is in the signature)
        Gr._STATE["schema_problems"] = probs


def sig_digest(G, label=None):
    return hashlib.sha256(repr(R.signature(G, label)).encode()).hexdigest()[:20]


def labels_with_objects(G):
    return [l for l in G["nodes"]]


def request_orders(G, full):
    """Identifier-request orders: all permutations of the nodes when `full` (graphs with sharing or cycles, or
    small graphs), else forward and backward."""
    ls = sorted(G["nodes"])
    if full and len(ls) <= 5:
        return [list(p) for p in itertools.permutations(ls)]
    return [ls, list(reversed(ls))]


def shared_or_cyclic(G):
    refs = []
    for l, n in G["nodes"].items():
        if "output_of" in n:
            refs.append(n["output_of"])
            continue
        for a in n["args"].values():
            refs.extend(R.refs_in(a))
        refs.extend(n.get("pre", []))
        refs.extend(n.get("init", []))
    return len(refs) != len(set(refs)) or Gr.has_cycle(G)


def expected(G, l, sealed_root):
    """Reference identifier of node l; the root's init tasks only exist once it has been submitted."""
    init = not (l == G["root"] and not sealed_root)
    return R.full_id(G, l, init=init)


def run_history(G, style, rev, order, seal=True):
    """One history: build, request every node (unsealed), seal the root, request every node again.
    Returns list of (phase, label, real_full, real_raw)."""
    obs = []
    B = Gr.build(G, style, rev)
    root = G["root"]
    root_is_task = is_task(G, root)
    cyc = Gr.has_cycle(G)
    for l in order:
        obs.append(("pre", l, Gr.ident(B.objs[l]), Gr.raw_ident(B.objs[l])))
    if seal:
        if root_is_task and not cyc:
            Gr.seal_root(G, B)
            job = B.tasks[root].__xpm__.job
            obs.append(("relpath", root, str(job.relpath), None))
        else:
            from experimaestro.xpmutils import DirectoryContext
            from pathlib import Path
            B.objs[root].__xpm__.seal(DirectoryContext(Path(Gr._STATE["dir"]) / "sealed"))
        for l in order:
            obs.append(("post", l, Gr.ident(B.objs[l]), Gr.raw_ident(B.objs[l])))
        # and once more in the opposite order (now everything that can be cached is cached)
        for l in reversed(order):
            obs.append(("post2", l, Gr.ident(B.objs[l]), Gr.raw_ident(B.objs[l])))
    return obs


def eval_c01(item):
    """item: {"G": description, "variants": "orders"|"styles"|"both"}.
    Returns mismatches between real identifiers and the reference, over all histories of the description."""
    G = item["G"]
    variants = item.get("variants", "both")
    out = {"mismatches": [], "requests": 0, "histories": 0, "error": None}
    root = G["root"]
    root_task_submittable = is_task(G, root) and not Gr.has_cycle(G)
    histories = []
    if variants in ("orders", "both"):
        for order in request_orders(G, shared_or_cyclic(G) or len(G["nodes"]) <= 3):
            histories.append(("kw", False, order))
    if variants in ("styles", "both"):
        ls = sorted(G["nodes"])
        for style, rev in (("kw", True), ("assign", False), ("assign", True)):
            histories.append((style, rev, ls))
    exp_cache = {}

    def exp(l, sealed):
        k = (l, sealed and root_task_submittable)
        if k not in exp_cache:
            exp_cache[k] = (expected(G, l, k[1]), R.raw_id(G, l))
        return exp_cache[k]

    for style, rev, order in histories:
        out["histories"] += 1
        try:
            obs = run_history(G, style, rev, order)
        except Exception as e:  # noqa
            out["mismatches"].append({"kind": "raises", "history": [style, rev, order],
                                      "error": f"{type(e).__name__}: {e}", "tb": traceback.format_exc()[-1500:]})
            continue
        for phase, l, full, raw in obs:
            out["requests"] += 1
            if phase == "relpath":
                n = G["nodes"][l]
                want = f"{SCHEMA[n['cls']]['tid']}/{exp(l, True)[0]}"
                if full != want:
                    out["mismatches"].append({"kind": "relpath", "history": [style, rev, order], "label": l, "real": full, "expected": want})
                continue
            ef, er = exp(l, phase != "pre")
            if full != ef or raw != er:
                out["mismatches"].append({"kind": "identifier", "phase": phase, "history": [style, rev, order], "label": l,
                                          "real": full, "expected": ef, "real_raw": raw, "expected_raw": er})
    out["root_id"] = R.full_id(G, root, init=root_task_submittable)
    out["sig"] = sig_digest(G)
    return out


def eval_ids(item):
    """Real full identifier of the root (sealed when it can be) + signature digest (used by C03 grouping)."""
    G = item["G"]
    try:
        B = Gr.build(G)
        root = G["root"]
        submitted = is_task(G, root) and not Gr.has_cycle(G)
        if submitted:
            Gr.seal_root(G, B)
        return {"id": Gr.ident(B.objs[root]), "raw": Gr.raw_ident(B.objs[root]),
                "sig": hashlib.sha256(repr(R.signature(G, None, init=submitted)).encode()).hexdigest()[:20], "sigraw": hashlib.sha256(repr(R.signature(G, None, full=False)).encode()).hexdigest()[:20]}
    except Exception as e:  # noqa
        return {"error": f"{type(e).__name__}: {e}", "tb": traceback.format_exc()[-1200:]}


# ---------------------------------------------------------------------------------------------- C02: neutral edits
def _alt(kind, cur):
    from .genspace import ALPHA
    for a in ALPHA[kind]:
        if not (a == cur and type(a) is type(cur)):
            return a
    raise KeyError(kind)


def only_via(G, l):
    """Nodes that are *parameters below* l: reachable from l through arguments only, and not reachable from the root
    without passing through l (l included).  Pre-tasks attached below a meta configuration are not followed: whether
    they belong to the signature is not something the documentation decides (DESIGN.md, C02)."""
    root = G["root"]

    def walk(start, stop=None, args_only=False):
        seen, stack = set(), [start]
        while stack:
            x = stack.pop()
            if x in seen:
                continue
            seen.add(x)
            if x == stop:
                continue
            m = G["nodes"][x]
            nxt = [m["output_of"]] if "output_of" in m else [r for v in m["args"].values() for r in R.refs_in(v)]
            if not args_only:
                nxt += m.get("pre", []) + m.get("init", [])
            stack.extend(nxt)
        return seen

    below = walk(l, args_only=True)
    without = walk(root, stop=l)
    return (below - without) | {l}


def neutral_edits(G):
    """Yields (kind, edited description, object-level spec or None)."""
    import copy
    from .genspace import add_default_node
    root = G["root"]
    for l, n in G["nodes"].items():
        if "output_of" in n:
            continue
        cls = SCHEMA[n["cls"]]
        for f in cls["fields"]:
            name, kind = f["name"], f["kind"]
            if f["generated"] or f["constant"]:
                continue
            if name not in n["args"]:
                if f["default"] is not None:
                    H = copy.deepcopy(G)
                    H["nodes"][l]["args"][name] = copy.deepcopy(f["default"])
                    yield (f"explicit-default:{kind.split(':')[0]}", H, None)
                elif not f["required"]:
                    H = copy.deepcopy(G)
                    H["nodes"][l]["args"][name] = None
                    yield ("explicit-none", H, None)
            if f["ignored"] and kind in ("int", "str", "path"):
                H = copy.deepcopy(G)
                cur = n["args"].get(name, f["default"])
                H["nodes"][l]["args"][name] = _alt(kind, cur)
                yield (f"ignored-value:{name}", H, None)
            if f["ignored"] and kind == "opt:cfg:leaf" and n["args"].get(name) is None:
                H = copy.deepcopy(G)
                H["_n"] = 500
                c = add_default_node(H, "leaf")
                H["nodes"][l]["args"][name] = {"ref": c}
                H.pop("_n")
                yield ("ignored-config-set", H, None)
            # a meta=True element added to a list / dict of configurations
            if kind == "list:cfg:leaf" or kind == "dict:cfg:leaf":
                H = copy.deepcopy(G)
                H["_n"] = 500
                c = add_default_node(H, "leaf")
                H["nodes"][c]["meta"] = True
                H["nodes"][c]["args"]["i"] = 2
                H.pop("_n")
                if kind.startswith("list"):
                    cur = list(n["args"].get(name) or [])
                    for pos in {0, len(cur)}:
                        H2 = copy.deepcopy(H)
                        H2["nodes"][l]["args"][name] = cur[:pos] + [{"ref": c}] + cur[pos:]
                        yield ("meta-element-added:list", H2, None)
                else:
                    cur = dict((n["args"].get(name) or {"dict": {}})["dict"])
                    cur["m"] = {"ref": c}
                    H["nodes"][l]["args"][name] = {"dict": cur}
                    yield ("meta-element-added:dict", H, None)
        # tags
        H = copy.deepcopy(G)
        H["nodes"][l]["tags"] = {"t": "v"}
        yield ("tag", H, None)
        # class twins (class extended with defaulted / Meta / generated parameters)
        for twin in ("leaf_v2", "box_v2"):
            if SCHEMA[twin]["twin_of"] == n["cls"]:
                H = copy.deepcopy(G)
                H["nodes"][l]["cls"] = twin
                yield (f"class-extension:{twin}", H, None)
        # anything below a meta=True sub-configuration
        if n.get("meta") is True and l != root:
            for x in sorted(only_via(G, l)):
                m = G["nodes"][x]
                if "output_of" in m:
                    continue
                for f in SCHEMA[m["cls"]]["fields"]:
                    if f["kind"] in ("int", "str", "float", "list:int", "dict:int") and not f["constant"] and not f["generated"]:
                        H = copy.deepcopy(G)
                        cur = m["args"].get(f["name"], f["default"])
                        H["nodes"][x]["args"][f["name"]] = _alt(f["kind"], cur)
                        yield ("below-meta", H, None)
        # object-level edits on tasks
        if SCHEMA[n["cls"]].get("task"):
            yield ("token-dependency", G, {"label": l, "what": "token"})
            yield ("explicit-dependency", G, {"label": l, "what": "job"})
    # all twins at once
    H = copy.deepcopy(G)
    changed = False
    for l, n in H["nodes"].items():
        if "output_of" not in n and n["cls"] in ("leaf", "box"):
            n["cls"] += "_v2"
            changed = True
    if changed:
        yield ("class-extension:all", H, None)
    if is_task(G, root) and not Gr.has_cycle(G):
        yield ("launcher", G, {"submit": "launcher"})
        yield ("run-mode", G, {"submit": "generate"})
        yield ("workspace", G, {"submit": "workspace"})


def _ids_of(G, spec=None):
    """Identifiers of all nodes of G after building it (root sealed when submittable); spec = object-level edit."""
    from experimaestro.tokens import ProcessCounterToken
    extra = None
    if spec and "label" in spec:
        def extra(l, obj, B):
            if l == spec["label"]:
                if spec["what"] == "token":
                    obj.add_dependencies(ProcessCounterToken(2).dependency(1))
                else:
                    import universe.g as U
                    with Gr.quiet():
                        other = U.Job(x=77)
                        other.submit()
                    obj.add_dependencies(other.__xpm__.dependency())
    B = Gr.build(G, extra=extra)
    root = G["root"]
    if is_task(G, root) and not Gr.has_cycle(G):
        kw = {}
        if spec and spec.get("submit") == "launcher":
            from experimaestro.launchers.direct import DirectLauncher
            from experimaestro.connectors.local import LocalConnector
            l = DirectLauncher(LocalConnector.instance())
            l.setenv("SOMETHING", "1")
            kw["launcher"] = l
        elif spec and spec.get("submit") == "generate":
            from experimaestro.scheduler.workspace import RunMode
            kw["run_mode"] = RunMode.GENERATE_ONLY
        elif spec and spec.get("submit") == "workspace":
            from experimaestro.scheduler.workspace import Workspace, RunMode
            from experimaestro.settings import WorkspaceSettings, get_settings
            from pathlib import Path
            kw["workspace"] = Workspace(get_settings(), WorkspaceSettings(id=None, path=Path(Gr._STATE["dir"]) / "otherws"), run_mode=RunMode.DRY_RUN)
        Gr.submit(G, B, root, **kw)
    return {l: Gr.ident(B.objs[l]) for l in G["nodes"] if l in B.objs}


def eval_c02(item):
    G = item["G"]
    out = {"edits": 0, "kinds": {}, "mismatches": [], "sig": sig_digest(G)}
    try:
        base = _ids_of(G)
    except Exception as e:  # noqa
        out["mismatches"].append({"kind": "base-raises", "error": f"{type(e).__name__}: {e}", "tb": traceback.format_exc()[-1200:]})
        return out
    sig0 = R.signature(G)
    root = G["root"]
    for kind, H, spec in neutral_edits(G):
        out["edits"] += 1
        out["kinds"][kind] = out["kinds"].get(kind, 0) + 1
        if R.signature(H) != sig0:
            # the oracle itself says the edit is not neutral: that is a checker bug, never a verdict
            out["mismatches"].append({"kind": "ORACLE", "edit": kind, "H": H})
            continue
        try:
            ids = _ids_of(H, spec)
        except Exception as e:  # noqa
            out["mismatches"].append({"kind": "raises", "edit": kind, "H": H, "spec": spec, "error": f"{type(e).__name__}: {e}", "tb": traceback.format_exc()[-1200:]})
            continue
        if ids[root] != base[root]:
            out["mismatches"].append({"kind": "changed", "edit": kind, "H": H, "spec": spec, "before": base[root], "after": ids[root]})
    return out


def schema_problems(_):
    return Gr._STATE.get("schema_problems", [])
