"""Worker-side evaluation functions of Engine G (run inside spawned workers, real experimaestro code)."""
from __future__ import annotations

import hashlib
import itertools
import json
import traceback

from . import graphs as Gr
from . import refmodel as R
from .genspace import is_task, node_cls
from .refmodel import SCHEMA


def init():
    Gr.worker_init()
    probs = R.check_schema()
    if probs:
        # reported by the checks as violations of C02 (the flags decide what is in the signature)
        Gr._STATE["schema_problems"] = probs


def sig_digest(G, label=None):
    return hashlib.sha256(repr(R.signature(G, label)).encode()).hexdigest()[:20]


def labels_with_objects(G):
    return [l for l in G["nodes"]]


def request_orders(G, full):
    """Identifier-request orders: all permutations of the nodes when `full` (graphs with sharing or cycles, or
    small graphs), else forward and backward."""
    ls = sorted(G["nodes"])
    if full and len(ls) <= 5:
        return [list(p) for p in itertools.permutations(ls)]
    return [ls, list(reversed(ls))]


def shared_or_cyclic(G):
    refs = []
    for l, n in G["nodes"].items():
        if "output_of" in n:
            refs.append(n["output_of"])
            continue
        for a in n["args"].values():
            refs.extend(R.refs_in(a))
        refs.extend(n.get("pre", []))
        refs.extend(n.get("init", []))
    return len(refs) != len(set(refs)) or Gr.has_cycle(G)


def expected(G, l, sealed_root):
    """Reference identifier of node l; the root's init tasks only exist once it has been submitted."""
    init = not (l == G["root"] and not sealed_root)
    return R.full_id(G, l, init=init)


def run_history(G, style, rev, order, seal=True):
    """One history: build, request every node (unsealed), seal the root, request every node again.
    Returns list of (phase, label, real_full, real_raw)."""
    obs = []
    B = Gr.build(G, style, rev)
    root = G["root"]
    root_is_task = is_task(G, root)
    cyc = Gr.has_cycle(G)
    for l in order:
        obs.append(("pre", l, Gr.ident(B.objs[l]), Gr.raw_ident(B.objs[l])))
    if seal:
        if root_is_task and not cyc:
            Gr.seal_root(G, B)
            job = B.tasks[root].__xpm__.job
            obs.append(("relpath", root, str(job.relpath), None))
        else:
            from experimaestro.xpmutils import DirectoryContext
            from pathlib import Path
            B.objs[root].__xpm__.seal(DirectoryContext(Path(Gr._STATE["dir"]) / "sealed"))
        for l in order:
            obs.append(("post", l, Gr.ident(B.objs[l]), Gr.raw_ident(B.objs[l])))
        # and once more in the opposite order (now everything that can be cached is cached)
        for l in reversed(order):
            obs.append(("post2", l, Gr.ident(B.objs[l]), Gr.raw_ident(B.objs[l])))
    return obs


def eval_c01(item):
    """item: {"G": description, "variants": "orders"|"styles"|"both"}.
    Returns mismatches between real identifiers and the reference, over all histories of the description."""
    G = item["G"]
    variants = item.get("variants", "both")
    out = {"mismatches": [], "requests": 0, "histories": 0, "error": None}
    root = G["root"]
    root_task_submittable = is_task(G, root) and not Gr.has_cycle(G)
    histories = []
    if variants in ("orders", "both"):
        for order in request_orders(G, shared_or_cyclic(G) or len(G["nodes"]) <= 3):
            histories.append(("kw", False, order))
    if variants in ("styles", "both"):
        ls = sorted(G["nodes"])
        for style, rev in (("kw", True), ("assign", False), ("assign", True)):
            histories.append((style, rev, ls))
    exp_cache = {}

    def exp(l, sealed):
        k = (l, sealed and root_task_submittable)
        if k not in exp_cache:
            exp_cache[k] = (expected(G, l, k[1]), R.raw_id(G, l))
        return exp_cache[k]

    for style, rev, order in histories:
        out["histories"] += 1
        try:
            obs = run_history(G, style, rev, order)
        except Exception as e:  # noqa
            out["mismatches"].append({"kind": "raises", "history": [style, rev, order],
                                      "error": f"{type(e).__name__}: {e}", "tb": traceback.format_exc()[-1500:]})
            continue
        for phase, l, full, raw in obs:
            out["requests"] += 1
            if phase == "relpath":
                n = G["nodes"][l]
                want = f"{SCHEMA[n['cls']]['tid']}/{exp(l, True)[0]}"
                if full != want:
                    out["mismatches"].append({"kind": "relpath", "history": [style, rev, order], "label": l, "real": full, "expected": want})
                continue
            ef, er = exp(l, phase != "pre")
            if full != ef or raw != er:
                out["mismatches"].append({"kind": "identifier", "phase": phase, "history": [style, rev, order], "label": l,
                                          "real": full, "expected": ef, "real_raw": raw, "expected_raw": er})
    out["root_id"] = R.full_id(G, root, init=root_task_submittable)
    out["sig"] = sig_digest(G)
    return out


def eval_ids(item):
    """Real full identifier of the root (sealed when it can be) + signature digest (used by C03 grouping)."""
    G = item["G"]
    try:
        B = Gr.build(G)
        root = G["root"]
        if is_task(G, root) and not Gr.has_cycle(G):
            Gr.seal_root(G, B)
        return {"id": Gr.ident(B.objs[root]), "raw": Gr.raw_ident(B.objs[root]), "sig": sig_digest(G), "sigraw": hashlib.sha256(repr(R.signature(G, None, full=False)).encode()).hexdigest()[:20]}
    except Exception as e:  # noqa
        return {"error": f"{type(e).__name__}: {e}", "tb": traceback.format_exc()[-1200:]}
