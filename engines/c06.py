"""C06 — every job reaches a truthful, stable final state and the experiment exits (Engine W)."""
from . import wcat
from .wcheck import replay, run_w  # noqa

PROPERTY = "C06"
LEVEL = "model_checking"
POL3 = ("FIFO", "LIFO", "JOBS")


def run(ctx):
    q = ctx.quick
    plan = [
        {"scens": wcat.token_scenarios(("file",)), "policies": POL3 if not q else ("FIFO", "JOBS"), "bound": 1 if q else 2, "demote": True, "cap": 40000},
        {"scens": wcat.token_scenarios(("process",), with_dag=False), "policies": ("FIFO",), "bound": 1 if q else 2, "demote": True, "cap": 40000},
        {"scens": wcat.history_scenarios(), "policies": ("FIFO", "LIFO"), "bound": 1 if q else 2, "demote": True, "cap": 40000},
        {"scens": wcat.wait_scenarios(), "policies": ("FIFO", "LIFO", "JOBS"), "bound": 1 if q else 2, "demote": True, "cap": 40000},
        {"scens": wcat.carry_scenarios(), "policies": ("FIFO", "JOBS"), "bound": 1},
        {"scens": wcat.first_handle_scenarios(), "policies": ("FIFO", "LIFO", "JOBS"), "bound": 1},
        {"scens": wcat.rerun_scenarios(), "policies": ("FIFO", "LIFO", "JOBS"), "bound": 1},
        {"scens": wcat.token_and_dependency_scenarios(), "policies": ("FIFO", "LIFO"), "bound": 1, "demote": True},
        # the token defined again by a second process with a larger capacity while a job waits for more than the old one; real and coarse time stamps
        {"scens": wcat.token_redefined_scenarios(), "policies": ("FIFO", "LIFO") + wcat.POL_PROC[:2] + wcat.POL_EAGER, "bound": 1},
        {"scens": wcat.token_again_scenarios(), "policies": ("FIFO", "JOBS"), "bound": 1, "demote": True},
        {"scens": wcat.latejoin_scenarios(failing=True), "policies": ("FIFO", "FIFO+rev"), "bound": 1},
        {"scens": wcat.dag_scenarios(3, rotations=(0,), with_failures=True, all_orders=False), "policies": ("FIFO",), "bound": 1 if not q else 0},
        {"scens": wcat.dag_scenarios(3 if q else 4, rotations=(0, 4), all_orders=False, min_n=2), "policies": ("FIFO", "JOBS"), "bound": 1, "cap": 3000},
    ]
    # two scheduler processes sharing a token directory (fine-grained points, long preemptions, eager notifications)
    two = [s for s in wcat.twoproc_scenarios() if s["family"] == "2proc:tok"]
    plan.append({"scens": two, "policies": ("FIFO", "JOBS") + wcat.POL_PROC[:2] + wcat.POL_EAGER, "bound": 1, "demote": True, "cap": 60000})
    for pol in ("FIFO", "LIFO", "JOBS", "Q:1,2,job"):
        plan.append({"scens": wcat.jobkill_scenarios(), "policies": (pol,), "kills": {"restart_bound": 0}})
    if q:
        # the small token workloads also at two deviations
        small = [s for s in wcat.token_scenarios(("file",), with_dag=False, with_failure=False) if s["name"] in ("tok:file:3;2,1", "tok:file:1;1,1", "tok:file:2;2,1")]
        plan.append({"scens": small, "policies": ("FIFO",), "bound": 2, "cap": 12000})
    return run_w(ctx, PROPERTY, plan,
                 "DAGs x tokens x exit codes x histories (duplicates, re-submission after failure, second experiment) x all schedules within the "
                 "deviation bound from three default policies; on every execution: state assignment log (finality), truthfulness vs exit codes, "
                 "job.wait() value, unfinishedJobs, hang at quiescence, experiment exit vs last final state")
