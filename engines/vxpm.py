"""Engine W, part 2: seams that put the real experimaestro scheduler onto the virtual world, the virtual job
process, and the observation helpers used by the checks."""
from __future__ import annotations

import asyncio
import json
import logging
import os
import sys
from asyncio import events
from pathlib import Path

from . import vworld as V

_installed = False


# ---------------------------------------------------------------------------------------------- virtual job process
#: externally visible operations of the real TaskRunner (run.py), per mode; checked against the real TaskRunner by
#: engines/crash.py:behaviour_table() (conformance check, DESIGN.md 2.2.6 item 3)
BEHAVIOUR = {
    "done-present": ["lock", "test-done", "unlink-pid", "unlock", "exit:0"],
    "ok": ["lock", "test-done", "unlink-failed?", "BODY", "touch-done", "unlink-pid", "unlock", "exit:0"],
    "fail": ["lock", "test-done", "unlink-failed?", "BODY", "write-failed", "unlink-pid", "unlock", "exit:1"],
}


def job_name(params):
    f = params["objects"][-1]["fields"]
    return f"j{f.get('x', 0)}"


class VProcess:
    def __init__(self, vpid, script: Path, owner_pid, name="?"):
        self.name = name
        self.vpid, self.script = vpid, Path(script)
        self.code = None
        self.exited = False
        self.owner_pid = owner_pid
        self.simproc = None
        self.body_running = False

    # -- experimaestro.connectors.Process interface
    def tospec(self):
        return {"type": "virtual", "pid": self.vpid}

    @classmethod
    def fromspec(cls, connector, spec):
        p = V.W.procs.get(spec["pid"])
        if p is None or p.exited:
            return None
        cur = V.current_proc()
        if cur is not None and cur.pid != p.owner_pid:
            # re-attached from a pid file by another process: like psutil for a process that is not a child,
            # waiting tells when it ended but not with which status
            return AdoptedVProcess(p)
        return p

    def wait(self):
        V.HUB.block_on(lambda: self.exited)
        return self.code

    async def aio_state(self):
        from experimaestro.connectors import ProcessState
        return ProcessState.FINISHED if self.exited else ProcessState.RUNNING

    async def aio_isrunning(self):
        return not self.exited

    async def aio_code(self):
        from experimaestro.utils.asyncio import asyncThreadcheck
        return await asyncThreadcheck("aio_code", self.wait)

    def kill(self):
        self.simproc.alive = False
        V.PosixLockTable.drop_all(self.vpid)
        self.code = -9
        self.exited = True
        self.body_running = False
        V.W.events.append(("exit", self.name, self.script.parent.name[:8], self.vpid, -9))

    # -- the process itself
    def body(self):
        script = self.script
        base = script.with_suffix("")
        lockp, done, failed, pid = (base.with_suffix(s) for s in (".lock", ".done", ".failed", ".pid"))
        jobid = script.parent.name[:8]
        code = None
        try:
            compile(V._orig["read_text"](script), str(script), "exec")
        except (SyntaxError, ValueError, OSError):
            # a truncated script: the interpreter stops with an error before anything of the task runner has run
            self.code = 1
            self.exited = True
            V.W.events.append(("exit", self.name, jobid, self.vpid, 1))
            return
        V.ip_acquire(str(lockp))
        # like the real TaskRunner: parameters are read after the job lock has been taken
        try:
            params = json.loads((script.parent / "params.json").read_text())
            fields = params["objects"][-1]["fields"]
            name = job_name(params)
        except ValueError:
            # params.json is being rewritten (truncated) by a scheduler: run() raises, TaskRunner.run's `except Exception`
            # takes the failure path with code 1 (unless the success marker is already there: run() is then not called)
            fields, name = {"code": 1}, self.name
            V.W.events.append(("params_unreadable", name, jobid, self.vpid))
        mode = "done-present" if done.is_file() else ("ok" if fields.get("code", 0) == 0 else "fail")
        for op in BEHAVIOUR[mode]:
            if op == "lock" or op == "test-done":
                continue
            if op == "unlink-failed?":
                if failed.is_file():
                    failed.unlink()
            elif op == "BODY":
                self.body_running = True
                V.W.events.append(("body_start", name, jobid, self.vpid))
                V.HUB.yield_point()
                V.W.events.append(("body_end", name, jobid, self.vpid, fields.get("code", 0)))
                self.body_running = False
            elif op == "touch-done":
                # (logged first: the scheduling point of touch() comes after the file exists)
                V.W.events.append(("marker_done", name, jobid, self.vpid))
                done.touch()
            elif op == "write-failed":
                failed.write_text(str(fields.get("code", 0)))
            elif op == "unlink-pid":
                if pid.is_file():
                    pid.unlink()
            elif op == "unlock":
                # the job has given up its run lock: from here on it only exits
                V.W.events.append(("released", name, jobid, self.vpid))
                V.ip_release(str(lockp))
            elif op.startswith("exit:"):
                code = int(op[5:])
        self.code = code
        self.exited = True
        # process death: every lock it still holds goes away
        V.PosixLockTable.drop_all(self.vpid)
        V.W.events.append(("exit", name, jobid, self.vpid, code))


class AdoptedVProcess:
    """What LocalProcess.fromspec gives for somebody else's process (PsutilProcess): no exit code."""

    def __init__(self, p):
        self.p = p

    def tospec(self):
        return self.p.tospec()

    def wait(self):
        V.HUB.block_on(lambda: self.p.exited)
        return None

    async def aio_state(self):
        return await self.p.aio_state()

    async def aio_isrunning(self):
        return not self.p.exited

    async def aio_code(self):
        from experimaestro.utils.asyncio import asyncThreadcheck
        return await asyncThreadcheck("aio_code", self.wait)

    def kill(self):
        self.p.kill()


class VProcessBuilder:
    def __init__(self):
        self.workingDirectory = None
        self.stdin = self.stdout = self.stderr = None
        self.detach = True
        self.environ = {}
        self.command = []

    def start(self, task_mode=False):
        # like subprocess.Popen on the generated script: it must be executable and start with an interpreter line
        script = str(self.command[0])
        if not os.access(script, os.X_OK):
            raise PermissionError(13, "Permission denied", script)
        with open(script, "rb") as fp:
            if fp.read(2) != b"#!":
                raise OSError(8, "Exec format error", script)
        V.W.next_pid += 1
        vpid = V.W.next_pid
        owner = V.current_proc()
        p = VProcess(vpid, Path(self.command[0]), owner.pid)
        V.W.procs[vpid] = p
        sp = V.SimProc(vpid, "job")
        sp.globals = V.fresh_globals()
        V.W.simprocs.append(sp)
        p.simproc = sp
        jobid = p.script.parent.name[:8]
        try:
            name = job_name(json.loads((p.script.parent / "params.json").read_text()))
        except Exception:  # noqa
            name = "?"
        p.name = name
        V.W.events.append(("launch", name, jobid, owner.pid, vpid))
        V.HUB.spawn(f"job:{name}:{vpid}", p.body, proc=sp, kind="job")
        if V.W.fine is True:
            V.HUB.yield_point()
        return p


def make_connector(path):
    """A LocalConnector whose locks and processes are virtual."""
    from experimaestro.connectors.local import LocalConnector
    from experimaestro.locking import Lock

    class VConnector(LocalConnector):
        # lock(): the tree's own LocalConnector.lock / InterProcessLock (a fasteners.InterProcessLock whose acquire / release are
        # virtual, see install())
        def processbuilder(self):
            return VProcessBuilder()

        def setExecutable(self, path, flag):
            # a scheduling (and kill) point before the mode change: the script is complete but not executable yet
            V.fs_event("chmod", path)
            return super().setExecutable(path, flag)

    return VConnector(Path(path))


def make_launcher(wd):
    from experimaestro.launchers.direct import DirectLauncher
    return DirectLauncher(make_connector(Path(wd) / "local"))


# ---------------------------------------------------------------------------------------------- seams
class AsyncioProxy:
    """Stands for the `asyncio` module inside experimaestro.scheduler.base: the scheduler thread (the real SchedulerCentral.run)
    gets a virtual loop; everything else is asyncio's."""

    def __getattr__(self, k):
        return getattr(asyncio, k)

    @staticmethod
    def new_event_loop():
        return V.VLoop()

    @staticmethod
    def set_event_loop(loop):
        pass


def make_vcentral(real):
    """A subclass of the tree's SchedulerCentral whose thread is an actor: __init__, run(), create() and whatever else the class
    defines (e.g. a stop method) are the tree's own code."""

    class VCentral(real):
        def __init__(self, name):
            self._vname = name
            super().__init__(name)

        def start(self):
            V.HUB.spawn(f"loop:{self._vname}:{V.current_proc().pid}", self.run, kind="loop")

        def join(self, timeout=None):
            pass

    return VCentral


class VOutputsWorker:
    def __init__(self, xp):
        import queue
        self.queue = queue.Queue()

    def start(self):
        pass

    def watch_output(self, w):
        pass


class StateDescriptor:
    """Job.state as a logging data descriptor (observation only)."""

    def __get__(self, obj, owner=None):
        if obj is None:
            return self
        return obj.__dict__.get("_vstate")

    def __set__(self, obj, value):
        old = obj.__dict__.get("_vstate")
        obj.__dict__["_vstate"] = value
        if V.W is not None and not V.W.dead_mode:
            if obj not in V.W.jobs:
                V.W.jobs.append(obj)
            try:
                name = f"j{obj.config.__xpm__.values.get('x', 0)}"
            except Exception:  # noqa
                name = "?"
            jid = None
            if old is not None:
                try:
                    jid = obj.identifier[:8]
                except Exception:  # noqa
                    pass
            cp = V.current_proc()
            V.W.events.append(("state", name, V.W.jobs.index(obj), old.name if old is not None else None, value.name, jid, cp.pid if cp else None))


def install():
    """Rebinds module globals of the imported experimaestro package.  Idempotent."""
    global _installed
    if _installed:
        return
    _installed = True
    sys._called_from_test = True
    logging.getLogger().setLevel(logging.CRITICAL)
    logging.getLogger("xpm").setLevel(logging.CRITICAL)
    logging.disable(logging.CRITICAL)
    import experimaestro  # noqa
    import experimaestro.scheduler.base as sbase
    import experimaestro.scheduler.dynamic_outputs as dyn
    import experimaestro.scheduler.dependencies as sdeps
    import experimaestro.scheduler.workspace as xws
    import experimaestro.utils.asyncio as uasync
    import experimaestro.tokens as xtokens
    import experimaestro.connectors.local as xlocal
    import experimaestro.connectors as xconn
    import experimaestro.taskglobals as tg
    import experimaestro.core.objects as xobj
    import experimaestro.ipc as xipc
    from . import graphs

    xobj.cprint = lambda *a, **k: None
    xobj.inspect = graphs._CheapInspect()

    # deterministic hashing of dependencies (sets of dependencies are iterated)
    orig_init = sdeps.Dependency.__init__

    def dep_init(self, origin):
        orig_init(self, origin)
        if V.W is not None:
            V.W.depseq += 1
            self._vseq = V.W.depseq
        else:
            self._vseq = id(self)

    sdeps.Dependency.__init__ = dep_init

    # sets of dependencies are iterated by the scheduler (registration order in aio_submit, lock order in aio_start, wake-up order
    # of dependents): in creation order, or in reverse creation order under a "<policy>+rev" policy
    class VOrderedSet(set):
        def __iter__(self):
            items = sorted(set.__iter__(self), key=lambda d: getattr(d, "_vseq", 0))
            if V.W is not None and getattr(V.W, "deporder", "fwd") == "rev":
                items.reverse()
            return iter(items)

    orig_job_init = sbase.Job.__init__

    def job_init(self, *a, **k):
        orig_job_init(self, *a, **k)
        self.dependencies = VOrderedSet(self.dependencies)

    sbase.Job.__init__ = job_init
    orig_dependents_init = sdeps.Dependents.__init__

    def dependents_init(self, *a, **k):
        orig_dependents_init(self, *a, **k)
        self._dependents = VOrderedSet(self._dependents)

    sdeps.Dependents.__init__ = dependents_init
    sdeps.Dependency.__hash__ = lambda self: self._vseq
    sdeps.Dependency.__eq__ = lambda self, other: self is other

    sbase.threading = V.ThreadingShim()
    sbase.asyncio = AsyncioProxy()
    sbase.SchedulerCentral = make_vcentral(sbase.SchedulerCentral)
    dyn.TaskOutputsWorker = VOutputsWorker
    asyncio.run_coroutine_threadsafe = V.v_run_coroutine_threadsafe
    uasync.Thread = V.VThread
    shim = V.ThreadingShim()
    sdeps.threading = shim
    xtokens.threading = shim
    xtokens.fasteners = V.VFasteners()

    # modification times: the real ones (nanosecond resolution, wall clock) or - scenario flag coarse_mtime - a coarse clock on which
    # everything an execution does happens within one tick (file systems with a 1 s or 2 s resolution)
    class _PathProxy:
        def __getattr__(self, k):
            return getattr(os.path, k)

        @staticmethod
        def getmtime(p):
            if V.W is not None and getattr(V.W, "coarse_mtime", False) and str(p).startswith(V.W.root):
                os.stat(p)      # (still fails when the file is gone)
                return 1000000000.0
            return os.path.getmtime(p)

    class _OsProxy:
        path = _PathProxy()

        def __getattr__(self, k):
            return getattr(os, k)

    xtokens.os = _OsProxy()
    # fasteners.InterProcessLock itself becomes virtual (lock table of vworld): the scheduler-side lock class of the tree
    # (connectors.local.InterProcessLock, a subclass) then runs its own __enter__ / __exit__ on top of it
    import fasteners as _fasteners

    # (fasteners keeps the path as bytes)
    def _fl_acquire(self, blocking=True, delay=0.01, max_delay=0.1, timeout=None):
        ok = V.ip_acquire(os.fsdecode(self.path), blocking=blocking)
        self.acquired = bool(ok)
        return ok

    def _fl_release(self):
        V.ip_release(os.fsdecode(self.path))
        self.acquired = False

    _fasteners.InterProcessLock.acquire = _fl_acquire
    _fasteners.InterProcessLock.release = _fl_release
    _fasteners.InterProcessLock.exists = lambda self: os.path.exists(os.fsdecode(self.path))
    xtokens.ipcom = lambda: V.VIPCom()
    xconn.Process.HANDLERS = {"virtual": VProcess}
    sbase.SIGNAL_HANDLER.add = lambda xp: None
    sbase.SIGNAL_HANDLER.remove = lambda xp: None
    sbase.rmtree = V.v_rmtree
    sbase.Job.state = StateDescriptor()
    # time.time() only feeds informational fields (submittime, starttime, endtime)
    V.install_fs()
    V._orig["rmtree"] = __import__("shutil").rmtree

    # record experiments and tokens (observation only)
    orig_enter = sbase.experiment.__enter__

    def xp_enter(self):
        r = orig_enter(self)
        if V.W is not None:
            V.W.xps.append(self)
        return r

    sbase.experiment.__enter__ = xp_enter
    orig_tok = xtokens.CounterToken.__init__

    def tok_init(self, *a, **k):
        orig_tok(self, *a, **k)
        if V.W is not None:
            V.W.tokens.append((V.current_proc(), self))

    xtokens.CounterToken.__init__ = tok_init

    V.PROC_GLOBALS[:] = [(sbase.experiment, "CURRENT"), (xws.Workspace, "CURRENT"), (xtokens.CounterToken, "TOKENS"),
                         (xlocal.LocalConnector, "INSTANCE"), (xipc.IPCom, "INSTANCE"), (tg.Env, "_instance")]
    audit()
    # executions collect their own garbage at tear-down (deterministically); nothing is collected in between, and the
    # objects that exist now (modules, classes) are taken out of the collector's sight
    import gc
    gc.collect()
    gc.freeze()
    gc.disable()


def audit():
    """Seam audit: a smoke execution must start no OS thread, take no real fcntl lock and spawn no real process."""
    import threading
    from .common import HarnessError
    seen = []

    def hook(ev, args):
        if ev in ("fcntl.lockf", "fcntl.flock", "subprocess.Popen", "os.posix_spawn", "os.fork"):
            seen.append(ev)
        elif ev == "_thread.start_new_thread":
            seen.append(ev)

    armed = [True]

    def guarded(ev, args):
        if armed[0]:
            hook(ev, args)

    sys.addaudithook(guarded)
    try:
        before = threading.active_count()
        r, hub, world = V.run_world([scenario_smoke], fine=True)
        after = threading.active_count()
    finally:
        armed[0] = False
    if seen or after != before:
        raise HarnessError(f"harness seam missing: real {sorted(set(seen))} / threads {before}->{after} during a virtual execution")
    if r.get("main_exc") or r.get("hung") or r.get("harness_error"):
        raise HarnessError(f"smoke execution failed: {r.get('main_exc')} {r.get('hung')} {r.get('harness_error')} {r.get('dead_actors')}")


def scenario_smoke(wd, result, proc):
    from experimaestro import experiment
    import universe.g as U
    with experiment(wd, "smoke", launcher=make_launcher(wd)) as xp:
        tok = xp.token("t", 1)
        a = U.Job(x=1)
        tok(1, a)
        a.submit()
        b = U.Job(x=2, up=a)
        b.submit()
    result["smoke"] = [a.__xpm__.job.state.name, b.__xpm__.job.state.name]


# ---------------------------------------------------------------------------------------------- abstract state (evidence)
def _count(v):
    """unfinishedJobs is a counter on the pinned tree; a change may well keep a collection instead"""
    return len(v) if hasattr(v, "__len__") else v


def abstract_state():
    """Hash of the property-relevant state after a step (for states/transitions counting)."""
    W = V.W
    mk = W.markers
    jobs = []
    for j in W.jobs:
        d = j.__dict__
        paths = d.get("_vmark")
        if paths is None and d.get("_vstate") is not None and d["_vstate"].value > 0:
            try:
                paths = d["_vmark"] = (str(j.donepath), str(j.failedpath), str(j.pidpath), f"j{j.config.__xpm__.values.get('x', 0)}")
            except Exception:  # noqa
                paths = None
        if paths is None:
            jobs.append(("?", d.get("_vstate"), 0, None))
        else:
            jobs.append((paths[3], d["_vstate"].value, j.unsatisfied, paths[0] in mk, paths[1] in mk, paths[2] in mk))
    toks = tuple((p.pid, t.available) for p, t in W.tokens)
    ntok = sum(1 for m in mk if m.endswith(".token"))
    procs = tuple(sorted((v.exited, v.body_running) for v in W.procs.values()))
    unfinished = tuple(_count(getattr(x, "unfinishedJobs", None)) for x in W.xps)
    pending = tuple(sorted(a.kind for a in V.HUB.actors if not a.dead and a.proc.alive and a.enabled()))
    return hash((tuple(sorted(jobs, key=repr)), toks, ntok, procs, unfinished, pending))
