"""Engine T: preemption-bounded exploration of REAL threads at line granularity.

Two (or three) operations run in real `threading.Thread`s on shared configuration objects.  A `sys.settrace` tracer
restricted to a set of source files counts the line events of every thread; exactly one thread runs at a time (baton =
one semaphore per thread + one for the controller).  A *plan* is the ordered list of preemption points
`(thread, line-event index)`: when the running thread reaches its planned point it hands the baton back and the
controller runs the other thread (round robin); a thread that finishes hands over to the most recently preempted one.
The default schedule (empty plan) is non-preemptive: thread `first`, then the others.  `explore()` enumerates every
plan with at most `bound` preemptions (CHESS-style iterative context bounding), each execution on freshly built objects.

Nothing is modelled: the code under test is the real code running in real threads; only the *schedule* is controlled.
Operations must not block on a lock held by a preempted thread (the controller waits with a time-out and reports a
harness error) - the workloads are lock-free code paths (identifier computation, sealing, serialisation, instance()).
"""
from __future__ import annotations

import sys
import threading

from .common import HarnessError


class Execution:
    def __init__(self, ops, plan, first=0, files=(), granularity="line", timeout=20.0):
        self.ops = ops
        self.n = len(ops)
        self.plan = [tuple(p) for p in plan]
        self.first = first
        self.files = tuple(files)
        self.gran = granularity
        self.timeout = timeout
        self.go = [threading.Semaphore(0) for _ in ops]
        self.back = threading.Semaphore(0)
        self.steps = [0] * self.n
        self.done = [False] * self.n
        self.results = [None] * self.n
        self.segments = []          # (thread, first step, last step + 1) in execution order
        self._seg_start = [0] * self.n
        self.preempted_at = []

    # ---- worker side
    def _point(self, i):
        k = self.steps[i]
        self.steps[i] = k + 1
        if self.plan and self.plan[0] == (i, k):
            self.plan.pop(0)
            self.preempted_at.append((i, k))
            self.back.release()
            self.go[i].acquire()

    def _tracer(self, i):
        files, gran, point = self.files, self.gran, self._point

        def local(frame, event, arg):
            if event == "line":
                point(i)
            return local

        def local_call_only(frame, event, arg):
            return None

        def glob(frame, event, arg):
            if event == "call" and frame.f_code.co_filename.endswith(files):
                if gran == "call":
                    point(i)
                    return None
                point(i)
                return local
            return None
        return glob

    def _worker(self, i):
        self.go[i].acquire()
        res = None
        sys.settrace(self._tracer(i))
        try:
            res = ("ok", self.ops[i]())
        except BaseException as e:  # noqa
            res = ("raised", f"{type(e).__name__}: {str(e)[:300]}")
        finally:
            sys.settrace(None)
            self.results[i] = res
            self.done[i] = True
            self.back.release()

    # ---- controller
    def run(self):
        threads = [threading.Thread(target=self._worker, args=(i,), daemon=True) for i in range(self.n)]
        for t in threads:
            t.start()
        order = [self.first] + [i for i in range(self.n) if i != self.first]
        last_run = {i: -1 for i in range(self.n)}    # logical time of the last hand-over to i
        clock = 0
        stack = []                                    # preempted threads, most recent last
        cur = order[0]
        while cur is not None:
            clock += 1
            last_run[cur] = clock
            start = self.steps[cur]
            self.go[cur].release()
            if not self.back.acquire(timeout=self.timeout):
                raise HarnessError(f"engine T: thread {cur} neither finished nor reached a scheduling point within {self.timeout}s "
                                   f"(blocked on a lock held by a preempted thread?) plan={self.preempted_at}")
            self.segments.append((cur, start, self.steps[cur]))
            if self.done[cur]:
                if cur in stack:
                    stack.remove(cur)
                if stack:
                    cur = stack.pop()
                else:
                    cur = next((i for i in order if not self.done[i]), None)
            else:
                # preempted: the least recently run other unfinished thread
                others = [i for i in range(self.n) if i != cur and not self.done[i]]
                if cur in stack:
                    stack.remove(cur)
                stack.append(cur)
                if others:
                    nxt = min(others, key=lambda i: last_run[i])
                    if nxt in stack:
                        stack.remove(nxt)
                    cur = nxt
                else:
                    cur = stack.pop()
        for t in threads:
            t.join(timeout=self.timeout)
        return self


def children(ex: Execution, plan, first):
    """Plans with one more preemption than `plan`, placed after its last preemption (every plan is generated once)."""
    out = []
    plan = [tuple(p) for p in plan]
    # position (segment index) after which new preemptions may be placed: the segment that follows the last planned preemption
    nplanned = len(plan)
    seen_pre = 0
    for si, (t, a, b) in enumerate(ex.segments):
        ended_by_preemption = seen_pre < nplanned and (t, b - 1) == plan[seen_pre] if b > a else False
        if seen_pre >= nplanned:
            # a preemption inside this segment is only meaningful when another thread is unfinished at that time
            unfinished_later = any(t2 != t for (t2, _, _) in ex.segments[si + 1:])
            if unfinished_later:
                for k in range(a, b):
                    out.append(plan + [(t, k)])
        if ended_by_preemption:
            seen_pre += 1
    return out


def explore(build, bound=1, files=("experimaestro/core/objects.py",), granularity="line", firsts=None, cap=None):
    """build() -> (ops, observe) : fresh objects; ops = list of thunks, observe(results) -> observation (JSON-able).
    Yields (first, plan, observation, steps) for every plan with <= bound preemptions."""
    nthreads = len(build()[0])
    total = 0
    for first in (firsts if firsts is not None else range(nthreads)):
        frontier = [[]]
        for d in range(bound + 1):
            nxt = []
            for plan in frontier:
                ops, observe = build()
                ex = Execution(ops, plan, first, files, granularity).run()
                if ex.plan:
                    raise HarnessError(f"engine T: planned preemption {ex.plan} never reached (nondeterministic line counts?) first={first} plan={plan}")
                total += 1
                yield first, plan, observe(ex.results), list(ex.steps)
                if d < bound:
                    nxt.extend(children(ex, plan, first))
                if cap is not None and total >= cap:
                    return
            frontier = nxt
