"""C07 — failures are contained: dependents are cancelled, others still run (Engine W)."""
from . import wcat
from .wcheck import replay, run_w  # noqa

PROPERTY = "C07"
LEVEL = "model_checking"


def run(ctx):
    q = ctx.quick
    plan = [
        {"scens": wcat.dag_scenarios(3, rotations=(0,), with_failures=True, all_orders=False), "policies": ("FIFO", "JOBS"), "bound": 1},
        {"scens": wcat.dag_scenarios(3, rotations=(5,), with_failures=True, all_orders=True, min_n=3)[:: (4 if q else 1)], "policies": ("LIFO",), "bound": 1},
        {"scens": [s for s in wcat.token_scenarios(("file", "process")) if s["name"].endswith(":fail")], "policies": ("FIFO", "LIFO"), "bound": 1 if q else 2, "demote": True},
    ]
    plan.append({"scens": wcat.special_dep_scenarios(failing=True), "policies": ("FIFO", "LIFO"), "bound": 1})
    plan.append({"scens": wcat.carry_scenarios(), "policies": ("FIFO", "LIFO", "JOBS"), "bound": 1})
    plan.append({"scens": wcat.token_and_dependency_scenarios(), "policies": ("FIFO", "LIFO", "JOBS"), "bound": 1, "demote": True})
    plan.append({"scens": wcat.rerun_scenarios(), "policies": ("FIFO", "LIFO", "JOBS"), "bound": 1})
    plan.append({"scens": wcat.first_handle_scenarios(), "policies": ("FIFO", "JOBS"), "bound": 1})
    plan.append({"scens": wcat.wait_scenarios(), "policies": ("FIFO", "LIFO", "JOBS"), "bound": 1})
    for pol in ("FIFO", "LIFO", "Q:1,2,job"):
        plan.append({"scens": wcat.jobkill_scenarios(), "policies": (pol,), "kills": {"restart_bound": 0}})
    # a failing job taken back by a restarted experiment (kill at every point, restart at once / after the orphans ended)
    plan.append({"scens": wcat.kill_fail_scenarios(), "policies": ("FIFO",), "kills": {"restart_bound": 0}})
    plan.append({"scens": wcat.kill_fail_scenarios(), "policies": ("JOBS",), "kills": {"restart_bound": 0}})
    plan.append({"scens": wcat.kill_fail_scenarios(), "policies": ("LIFO",), "kills": {"restart_bound": 0}})
    if not q:
        plan.append({"scens": wcat.dag_scenarios(4, rotations=(2,), with_failures=True, all_orders=False, min_n=4)[::3], "policies": ("FIFO",), "bound": 1, "cap": 4000})
        plan.append({"scens": wcat.dag_scenarios(3, rotations=(7,), with_failures=True, all_orders=False, min_n=2), "policies": ("FIFO",), "bound": 2, "cap": 20000})
    return run_w(ctx, PROPERTY, plan,
                 "every DAG on <=3 nodes x every non-empty failing subset x submission orders, failures before / while / after dependents are "
                 "submitted (schedules within the deviation bound); oracles: no launch of a job with a failed ancestor, such jobs end ERROR with "
                 "failure status DEPENDENCY, every other job ends by its own exit code, FailedExperiment raised iff some job ended ERROR")
