"""Engine W, part 5: deviation-bounded stateless search over schedules, fanned out over the worker pool.

A schedule is {step: choice}; choice 0 is the default policy's choice, any other index costs one deviation.  For a
bound d all schedules with <= d deviations are executed: level by level, each execution reports the number of
enabled actors at every step, from which its one-more-deviation children are generated (only at steps after its last
deviation, so every schedule is generated exactly once).  Replaying a prefix must reproduce the recorded widths,
otherwise the run stops with "nondeterminism".
"""
from __future__ import annotations

import hashlib
import json
import time

from .common import HarnessError

_STATES = set()
_TRANS = set()


def worker_init():
    import gc
    import warnings
    from . import vxpm
    # coroutines of abandoned (killed / torn down) simulated processes are never awaited: expected, not worth a line each
    warnings.filterwarnings("ignore", category=RuntimeWarning, message="coroutine .* was never awaited")
    vxpm.install()
    # executions collect their own garbage at tear-down (deterministically); nothing is collected in between
    gc.collect()
    gc.freeze()
    gc.disable()


def scripts_of(scen):
    from .wscen import make_script
    return [make_script(ops, scen, f"p{i + 1}") for i, ops in enumerate(scen["procs"])]


def prepare_of(scen):
    """Preliminary runs that bring the workspace into the scenario's initial state (e.g. success markers present)."""
    if not scen.get("prelude"):
        return None
    return scen["prelude"]


def execute(scen, policy="FIFO", schedule=None, expect=None, kill=None, keep_dir=False, on_step_extra=None, fault=None):
    from . import vworld as V
    V.NEXT_FAULT = tuple(fault) if fault else None
    V.NEXT_FLAGS = {"coarse_mtime": bool(scen.get("coarse_mtime"))}
    from . import vxpm as X
    from .wscen import make_script
    import copy
    scen = copy.deepcopy(scen)
    last = [None]

    def on_step(actor):
        h = X.abstract_state()
        _STATES.add(h)
        if last[0] is not None and last[0] != h:
            _TRANS.add((last[0], actor.kind, h))
        last[0] = h
        if on_step_extra:
            on_step_extra(actor)

    killspec = None
    if kill is not None:
        step, pid = kill["step"], kill.get("pid", 1)
        restart_ops = scen.get("restart") if not isinstance(pid, str) else None

        def restart(hub):
            if restart_ops is None:
                return
            proc = V.new_simproc("scheduler", pid=50 + (pid if isinstance(pid, int) else 1))
            script = make_script(restart_ops, scen, "restart")

            def main():
                import greenlet
                try:
                    script(V.Path(V.W.root), result_box[0], proc)
                    result_box[0]["returned"].append(proc.pid)
                except greenlet.GreenletExit:
                    raise
                except BaseException as e:  # noqa
                    import traceback
                    result_box[0]["main_exc"][proc.pid] = (type(e).__name__, str(e)[:300], traceback.format_exc()[-1500:])
            hub.spawn(f"main:{proc.pid}", main, proc=proc, kind="main")
        killspec = (step, pid, restart)
    result_box = [None]
    scripts = scripts_of(scen)
    # the result dict is created inside run_world; scripts receive it as argument: capture it for the restart script
    wrapped = []
    for s in scripts:
        def w(wd, result, proc, s=s):
            result_box[0] = result
            return s(wd, result, proc)
        wrapped.append(w)
    prelude = scen.get("prelude")

    def prepare(wd):
        pass

    def at_end(result, hub, world):
        toks = []
        for p, t in world.tokens:
            if not p.alive:
                continue
            try:
                files = sorted(f.name[:8] for f in t.path.glob("*.token"))
            except Exception:  # noqa
                files = ["?"]
            try:
                info = int((t.path / "token.info").read_text())
            except Exception:  # noqa
                info = None
            toks.append({"pid": p.pid, "name": t.name, "available": t.available, "total": t.total, "files": files, "info": info})
        result["tokens_end"] = toks
        result["jobs_end"] = [{"name": f"j{j.config.__xpm__.values.get('x', 0)}", "state": j.state.name if j.state else None,
                               "unsatisfied": j.unsatisfied} for j in world.jobs]

    r, hub, world = V.run_world(wrapped, at_end=at_end, schedule={int(k): v for k, v in (schedule or {}).items()}, policy=policy,
                                fine=(scen.get("fine") if scen.get("fine") in (True, "token") else False), kill=killspec, on_step=on_step, expect_widths=expect,
                                keep_dir=keep_dir, max_steps=scen.get("max_steps", 20000))
    return r


def run_item(item):
    """One execution + oracles.  item: {scen, policy, schedule, expect, kill, props}"""
    from .woracle import analyze, outcome
    scen = item["scen"]
    r = execute(scen, item.get("policy", "FIFO"), item.get("schedule"), item.get("expect"), item.get("kill"), fault=item.get("fault"))
    if r.get("harness_error") and "Nondeterminism" in r["harness_error"]:
        return {"nondeterminism": r["harness_error"], "widths": r["widths"]}
    viol = analyze(scen, r, set(item["props"]))
    if "C16" in item["props"]:
        from .woracle import analyze_index
        viol += analyze_index(scen, r)
    out = {"widths": r["widths"], "violations": viol, "outcome": hashlib.sha256(outcome(scen, r).encode()).hexdigest()[:16],
           "steps": len(r["widths"])}
    out["token_reads"] = r.get("token_reads", 0)
    if item.get("kill") is not None:
        # a kill point at which the victim is not alive (a job process that has not started yet / is already over) changes nothing
        out["kill_effective"] = any(e[0] in ("KILL", "KILLJOB") for e in r["events"])
    if item.get("want_events"):
        out["events"] = [list(map(str, e)) for e in r["events"] if e[0] != "fs"][:400]
        out["chosen"] = r["chosen"]
        out["scripts"] = r.get("scripts")
        out["hung"] = r.get("hung")
        out["tokens_end"] = r.get("tokens_end")
        out["dead_actors"] = r.get("dead_actors")
        out["main_exc"] = r.get("main_exc")
    return out


def collect_states(_):
    return (len(_STATES), len(_TRANS), list(_STATES)[:200000], [hash(t) for t in list(_TRANS)[:400000]])


class Search:
    """Drives the exploration of a list of scenarios for a set of properties."""

    def __init__(self, pool, props, budget_s=None):
        self.pool, self.props = pool, list(props)
        self.executions = 0
        self.outcomes = {}
        self.completed = {}       # scenario name -> {policy: bound completed}
        self.capped = []
        self.violations = []      # (prop, key, msg, payload)
        self.t0 = time.time()
        self.budget_s = budget_s
        self.max_steps_seen = 0

    def explore(self, scen, policies=("FIFO",), bound=1, cap=None):
        self.explore_block([scen], policies, bound, cap)

    def explore_block(self, scens, policies=("FIFO",), bound=1, cap=None, window=None, demote=False):
        """Level-by-level exploration of several scenarios at once (one pool wave per deviation level)."""
        # frontier: (scenario index, policy) -> list of (schedule, expected widths prefix)
        fr = {(si, pol): [({}, None)] for si in range(len(scens)) for pol in policies}
        totals = {k: 0 for k in fr}
        done = {k: -1 for k in fr}
        stopped = set()
        for d in range(bound + 1):
            items, owners = [], []
            for k, frontier in fr.items():
                if k in stopped or not frontier:
                    if k not in stopped and done[k] == d - 1:
                        done[k] = bound      # nothing left to deviate: every larger bound is complete too
                        stopped.add(k)
                    continue
                name = scens[k[0]]["name"]
                if cap is not None and totals[k] + len(frontier) > cap:
                    self.capped.append({"scenario": name, "policy": k[1], "bound_not_completed": d, "frontier": len(frontier), "cap": cap})
                    stopped.add(k)
                    continue
                if self.budget_s is not None and time.time() - self.t0 > self.budget_s:
                    self.capped.append({"scenario": name, "policy": k[1], "bound_not_completed": d, "frontier": len(frontier), "reason": "time budget"})
                    stopped.add(k)
                    continue
                for sch, exp in frontier:
                    items.append({"scen": scens[k[0]], "policy": k[1], "schedule": sch, "expect": exp, "props": self.props})
                    owners.append(k)
                totals[k] += len(frontier)
            if not items:
                break
            outs = self.pool.map("engines.explore:run_item", items)
            self.executions += len(items)
            nxt = {k: [] for k in fr}
            for it, k, o in zip(items, owners, outs):
                name = it["scen"]["name"]
                if "nondeterminism" in o:
                    raise HarnessError(f"nondeterminism while replaying {it['schedule']} of {name}/{k[1]}: {o['nondeterminism']}")
                self.outcomes.setdefault(name, set()).add(o["outcome"])
                self.max_steps_seen = max(self.max_steps_seen, o["steps"])
                for prop, key, msg in o["violations"]:
                    if key == "HARNESS":
                        raise HarnessError(f"{name}/{k[1]} schedule {it['schedule']}: {msg}")
                    self.violations.append((prop, key, msg, {"scen": it["scen"], "policy": k[1], "schedule": it["schedule"]}))
                if d < bound:
                    sch = it["schedule"]
                    start = (max(map(int, sch)) + 1) if sch else 0
                    w = o["widths"]
                    # `window`: a further deviation is only placed within that many scheduling steps after the previous one
                    # (a smaller, still completely enumerated space: "<= bound deviations, consecutive ones <= window apart")
                    stop = len(w) if (window is None or not sch) else min(len(w), start + window)
                    for i in range(start, stop):
                        for alt in range(1, w[i] if demote != "only" else 1):
                            s2 = dict(sch)
                            s2[i] = alt
                            nxt[k].append((s2, w[: i + 1]))
                        if demote and w[i] > 1:
                            # the "long preemption" deviation: the default actor is descheduled until nothing else can run
                            s2 = dict(sch)
                            s2[i] = "D"
                            nxt[k].append((s2, w[: i + 1]))
            for k in fr:
                if k not in stopped and fr[k]:
                    done[k] = d
                fr[k] = nxt[k]
        for k in fr:
            self.completed.setdefault(scens[k[0]]["name"], {})[k[1] + (f"/window{window}" if window else "") + ({True: "/demote", "only": "/demote-only"}.get(demote, ""))] = done[k]

    def explore_kills(self, scen, policy="FIFO", base_schedules=({},), restart_bound=0, demote=False):
        """Kill the first scheduler process before every scheduling step of each base schedule, then run the restart
        script; explores the continuation with <= restart_bound deviations after the kill point."""
        name = scen["name"]
        for sch in base_schedules:
            base = self.pool.map("engines.explore:run_item", [{"scen": dict(scen, restart=None), "policy": policy, "schedule": sch, "props": []}])[0]
            n = len(base["widths"])
            items = [{"scen": scen, "policy": policy, "schedule": sch, "kill": {"step": k, "pid": scen.get("kill_pid", 1)}, "props": self.props} for k in range(n + 1)]
            outs = self.pool.map("engines.explore:run_item", items)
            self.executions += len(items) + 1
            frontier = []
            ineffective_seen = False
            for it, o in zip(items, outs):
                if "nondeterminism" in o:
                    raise HarnessError(f"nondeterminism in kill run {it['kill']} of {name}: {o['nondeterminism']}")
                self.outcomes.setdefault(name, set()).add(o["outcome"])
                for prop, key, msg in o["violations"]:
                    if key == "HARNESS":
                        raise HarnessError(f"{name} kill {it['kill']}: {msg}")
                    self.violations.append((prop, key, msg, {"scen": scen, "policy": policy, "schedule": it["schedule"], "kill": it["kill"]}))
                if restart_bound >= 1 and (o.get("kill_effective", True) or not ineffective_seen):
                    # (all executions in which the kill found nothing to kill are the same execution: one representative)
                    if not o.get("kill_effective", True):
                        ineffective_seen = True
                    w = o["widths"]
                    start = max([it["kill"]["step"]] + [int(x) + 1 for x in it["schedule"]])
                    for i in range(start, len(w)):
                        for alt in range(1, w[i] if demote != "only" else 1):
                            s2 = dict(it["schedule"])
                            s2[i] = alt
                            frontier.append({"scen": scen, "policy": policy, "schedule": s2, "kill": it["kill"], "props": self.props, "expect": w[: i + 1]})
                        if demote and w[i] > 1:
                            # the "long preemption" deviation after the kill (see explore_block)
                            s2 = dict(it["schedule"])
                            s2[i] = "D"
                            frontier.append({"scen": scen, "policy": policy, "schedule": s2, "kill": it["kill"], "props": self.props, "expect": w[: i + 1]})
            if frontier:
                outs = self.pool.map("engines.explore:run_item", frontier)
                self.executions += len(frontier)
                for it, o in zip(frontier, outs):
                    if "nondeterminism" in o:
                        raise HarnessError(f"nondeterminism in kill run {it['kill']} {it['schedule']} of {name}: {o['nondeterminism']}")
                    self.outcomes.setdefault(name, set()).add(o["outcome"])
                    for prop, key, msg in o["violations"]:
                        self.violations.append((prop, key, msg, {"scen": scen, "policy": policy, "schedule": it["schedule"], "kill": it["kill"]}))
            self.completed.setdefault(name, {})[f"{policy}+kill" + ({True: "/demote", "only": "/demote-only"}.get(demote, ""))] = restart_bound

    def explore_faults(self, scens, policies=("FIFO",), kind="token-read", schedules=({},)):
        """One I/O fault per execution: for every scenario, policy and base schedule, the n-th read of a token file fails (EIO) for every
        n up to the number of such reads of the fault-free execution."""
        for scen in scens:
            name = scen["name"]
            for pol in policies:
                for sch in schedules:
                    base = self.pool.map("engines.explore:run_item", [{"scen": scen, "policy": pol, "schedule": sch, "props": []}])[0]
                    n = base.get("token_reads", 0)
                    items = [{"scen": scen, "policy": pol, "schedule": sch, "fault": [kind, k], "props": self.props} for k in range(1, n + 1)]
                    outs = self.pool.map("engines.explore:run_item", items) if items else []
                    self.executions += len(items) + 1
                    for it, o in zip(items, outs):
                        if "nondeterminism" in o:
                            raise HarnessError(f"nondeterminism in fault run {it['fault']} of {name}: {o['nondeterminism']}")
                        self.outcomes.setdefault(name, set()).add(o["outcome"])
                        for prop, key, msg in o["violations"]:
                            if key == "HARNESS":
                                raise HarnessError(f"{name} fault {it['fault']}: {msg}")
                            self.violations.append((prop, key + ":io-fault", msg, {"scen": scen, "policy": pol, "schedule": it["schedule"], "fault": it["fault"]}))
                    self.completed.setdefault(name, {})[f"{pol}+{kind}-fault"] = n

    def states(self):
        res = self.pool.map_on("engines.explore:collect_states", [None] * self.pool.n, list(range(self.pool.n)))
        st, tr = set(), set()
        for ns, nt, s, t in res:
            st.update(s)
            tr.update(t)
        return len(st), len(tr)


def coverage(search, scens, rule):
    st, tr = search.states()
    return {
        "states": st, "transitions": tr,
        "traces_validated_against_impl": search.executions,
        "evaluations": search.executions,
        "distinct_nontrivial": sum(len(v) for v in search.outcomes.values()),
        "rule": rule,
        "samples": [{"scenario": s["name"], "procs": s["procs"]} for s in scens[:2]],
        "executions": search.executions,
        "scenarios": len(scens),
        "completed_deviation_bound": search.completed,
        "distinct_outcomes_per_scenario": {k: len(v) for k, v in search.outcomes.items()},
        "caps_hit": search.capped,
        "max_steps_per_execution": search.max_steps_seen,
        "exhaustive": not search.capped,
    }


def replay_execution(payload):
    """Re-runs one recorded execution twice and prints the observation log (used by --replay)."""
    worker_init()
    item = {"scen": payload["scen"], "policy": payload.get("policy", "FIFO"), "schedule": payload.get("schedule"),
            "kill": payload.get("kill"), "fault": payload.get("fault"), "props": payload.get("props") or ["C04", "C05", "C06", "C07", "C08", "C09", "C11", "C16"], "want_events": True}
    a = run_item(item)
    b = run_item(item)
    same = a.get("events") == b.get("events")
    print("deterministic replay:", same)
    print("chosen actors:", a.get("chosen"))
    for e in a.get("events", []):
        print("  ", e)
    print("scripts:", json.dumps(a.get("scripts"), default=str)[:3000])
    print("tokens at quiescence:", a.get("tokens_end"))
    print("hung:", a.get("hung"), "dead actors:", a.get("dead_actors"), "main_exc:", a.get("main_exc"))
    print("violations:", a.get("violations"))
    return 0 if same else 2
