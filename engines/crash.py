"""Engine K: explicit-state exploration of the real TaskRunner under process death at every traced line.

A *state* is the canonical content of a job directory (markers, failure code, pid file, body start/end counters).
A *transition* launches the real generated job script in a forked child of the worker (the worker has imported
experimaestro once; the child runs the script with runpy exactly as `python script.py` would, including atexit
handlers), with a line tracer restricted to experimaestro/run.py, the generated script and the task module that
delivers SIGKILL / SIGTERM / SIGINT to the process itself at the k-th line event (k = 0: no signal, events recorded).
"""
from __future__ import annotations

import fcntl
import json
import os
import shutil
import signal
import sys
import tempfile
from pathlib import Path

TRACED = ("experimaestro/run.py", "universe/crashtask.py")
_JOBS = {}


def worker_init():
    sys._called_from_test = True
    import logging
    logging.disable(logging.CRITICAL)
    import experimaestro.run  # noqa  (pre-import: children are forked from here)
    import universe.crashtask  # noqa


def make_job(variant):
    """Real job directory (script + params.json) produced by the real code in GENERATE_ONLY mode; one per worker and variant."""
    key = json.dumps(variant, sort_keys=True)
    if key in _JOBS:
        return _JOBS[key]
    from experimaestro import experiment
    from experimaestro.scheduler.workspace import RunMode
    from universe.crashtask import CrashTask
    import io
    d = Path(tempfile.mkdtemp(prefix="vk", dir=os.environ.get("VERIF_SCRATCH", "/dev/shm")))
    import atexit
    atexit.register(lambda: shutil.rmtree(d, ignore_errors=True))
    old = sys.stderr
    sys.stderr = io.StringIO()
    try:
        with experiment(d, "gen", run_mode=RunMode.GENERATE_ONLY, port=-1) as xp:
            xp.workspace.launcher.setenv("PYTHONPATH", str(Path(__file__).resolve().parent.parent))
            t = CrashTask(code=variant["code"], how=variant["how"])
            t.submit()
            job = t.__xpm__.job
            info = {"dir": str(job.path), "script": str(job.path / f"{job.name}.py"), "name": job.name, "lock": str(job.lockpath)}
    finally:
        sys.stderr = old
    _JOBS[key] = info
    return info


def restore(info, state):
    d, name = Path(info["dir"]), info["name"]
    for suffix in (".done", ".failed", ".pid"):
        p = d / f"{name}{suffix}"
        if p.exists():
            p.unlink()
    if (d / "exec.log").exists():
        (d / "exec.log").unlink()
    if state["done"]:
        (d / f"{name}.done").touch()
    if state["failed"] is not None:
        (d / f"{name}.failed").write_text(state["failed"])
    # the scheduler writes the pid file right after the spawn: present when the child reaches TaskRunner.run
    (d / f"{name}.pid").write_text(json.dumps({"type": "local", "pid": 1}))
    log = "start\n" * (state["starts"] - state["ends"])
    log = "start\nend\n" * state["ends"] + log
    if log:
        (d / "exec.log").write_text(log)


def observe(info):
    d, name = Path(info["dir"]), info["name"]
    log = (d / "exec.log").read_text().split() if (d / "exec.log").exists() else []
    failed = (d / f"{name}.failed")
    return {"done": (d / f"{name}.done").exists(), "failed": failed.read_text() if failed.exists() else None,
            "pid": (d / f"{name}.pid").exists(), "starts": log.count("start"), "ends": log.count("end")}


def lock_free(info):
    try:
        fd = os.open(info["lock"], os.O_RDWR | os.O_CREAT)
    except OSError:
        return True
    try:
        fcntl.lockf(fd, fcntl.LOCK_EX | fcntl.LOCK_NB)
        fcntl.lockf(fd, fcntl.LOCK_UN)
        return True
    except OSError:
        return False
    finally:
        os.close(fd)


class NotificationFault(OSError):
    pass


def install_notification_fault(fault, calls):
    """The notification channel of a job (progress / end-of-job reports to listening servers, files of .notifications) is outside the
    job: the `fault`-th call that TaskRunner makes into experimaestro.notifications raises (fault == 0: calls are only counted).
    Every function of that module that run.py has bound in its own namespace is wrapped."""
    import functools
    import experimaestro.run as R
    for name, fn in list(vars(R).items()):
        if callable(fn) and getattr(fn, "__module__", None) == "experimaestro.notifications" and not isinstance(fn, type):
            def wrapper(*a, _fn=fn, _name=name, **kw):
                calls.append(_name)
                if len(calls) == fault:
                    raise NotificationFault(f"notification channel unavailable ({_name})")
                return _fn(*a, **kw)
            setattr(R, name, functools.wraps(fn)(wrapper))


def child_main(script, k, sig, wfd, fault=None):
    """Runs in the forked child: the job script under the tracer.  Reports the traced events through wfd when k == 0."""
    import atexit
    import runpy
    count = [0]
    events = []
    delivered = [None]
    ncalls = []
    if fault is not None:
        install_notification_fault(fault, ncalls)

    def local(frame, event, arg):
        if event == "line":
            count[0] += 1
            if k == 0:
                events.append((os.path.basename(frame.f_code.co_filename), frame.f_lineno, frame.f_code.co_name))
            elif count[0] == k:
                delivered[0] = (os.path.basename(frame.f_code.co_filename), frame.f_lineno, frame.f_code.co_name)
                try:
                    os.write(wfd, (json.dumps({"delivered": delivered[0]}) + "\n").encode())
                except OSError:
                    pass
                os.kill(os.getpid(), sig)
        return local

    def tracer(frame, event, arg):
        fn = frame.f_code.co_filename
        if fn.endswith(TRACED) or fn == script:
            return local
        return None

    code = 0
    sys.argv = [script]
    devnull = os.open(os.devnull, os.O_WRONLY)
    os.dup2(devnull, 1)
    os.dup2(devnull, 2)
    # a fresh interpreter has the default handlers and no exit functions
    signal.signal(signal.SIGTERM, signal.SIG_DFL)
    signal.signal(signal.SIGINT, signal.default_int_handler)
    atexit._clear()
    sys.settrace(tracer)
    try:
        runpy.run_path(script, run_name="__main__")
    except SystemExit as e:
        code = e.code if isinstance(e.code, int) else (0 if e.code is None else 1)
    except KeyboardInterrupt:
        code = 130
    except BaseException:  # noqa
        code = 1
    finally:
        sys.settrace(None)
    try:
        atexit._run_exitfuncs()
    except SystemExit as e:
        code = e.code if isinstance(e.code, int) else code
    except BaseException:  # noqa
        pass
    if k == 0:
        try:
            os.write(wfd, (json.dumps({"events": events, "notification_calls": ncalls}) + "\n").encode())
        except OSError:
            pass
    os._exit(code if isinstance(code, int) else 1)


def launch(item):
    """item: {variant, state, k, sig} -> {state', exit, signaled, events?, delivered?, lock_free}"""
    info = make_job(item["variant"])
    restore(info, item["state"])
    r, w = os.pipe()
    pid = os.fork()
    if pid == 0:
        os.close(r)
        try:
            child_main(info["script"], item["k"], item["sig"], w, item.get("fault"))
        finally:
            os._exit(99)
    os.close(w)
    chunks = []
    while True:
        b = os.read(r, 65536)
        if not b:
            break
        chunks.append(b)
    os.close(r)
    _, status = os.waitpid(pid, 0)
    out = {"exit": os.waitstatus_to_exitcode(status), "state": observe(info), "lock_free": lock_free(info)}
    for line in b"".join(chunks).decode().splitlines():
        try:
            out.update(json.loads(line))
        except ValueError:
            pass
    return out


# ---------------------------------------------------------------------------------------------- two task processes on one job directory
def child_pause(script, k, wfd):
    """Like child_main without signal, but the process stops itself (SIGSTOP) at the k-th traced line event."""
    import atexit
    import runpy
    count = [0]

    def local(frame, event, arg):
        if event == "line":
            count[0] += 1
            if count[0] == k:
                try:
                    os.write(wfd, (json.dumps({"paused_at": (os.path.basename(frame.f_code.co_filename), frame.f_lineno, frame.f_code.co_name)}) + "\n").encode())
                except OSError:
                    pass
                os.kill(os.getpid(), signal.SIGSTOP)
        return local

    def tracer(frame, event, arg):
        fn = frame.f_code.co_filename
        if fn.endswith(TRACED) or fn == script:
            return local
        return None

    code = 0
    sys.argv = [script]
    devnull = os.open(os.devnull, os.O_WRONLY)
    os.dup2(devnull, 1)
    os.dup2(devnull, 2)
    signal.signal(signal.SIGTERM, signal.SIG_DFL)
    signal.signal(signal.SIGINT, signal.default_int_handler)
    atexit._clear()
    if k:
        sys.settrace(tracer)
    try:
        runpy.run_path(script, run_name="__main__")
    except SystemExit as e:
        code = e.code if isinstance(e.code, int) else (0 if e.code is None else 1)
    except BaseException:  # noqa
        code = 1
    finally:
        sys.settrace(None)
    try:
        atexit._run_exitfuncs()
    except SystemExit as e:
        code = e.code if isinstance(e.code, int) else code
    except BaseException:  # noqa
        pass
    os._exit(code if isinstance(code, int) else 1)


def launch_pair(item):
    """Process A runs the job script and stops itself at its k-th line event; process B is then started on the same job
    directory and runs freely (it finishes, or waits for the run lock); A is resumed.  Observed: the body log."""
    import time
    info = make_job(item["variant"])
    restore(info, item["state"])
    r, w = os.pipe()
    a = os.fork()
    if a == 0:
        os.close(r)
        try:
            child_pause(info["script"], item["k"], w)
        finally:
            os._exit(99)
    os.close(w)
    out = {"a_exit": None, "b_exit": None, "hang": False}
    _, st = os.waitpid(a, os.WUNTRACED)
    a_done = not os.WIFSTOPPED(st)
    if a_done:
        out["a_exit"] = os.waitstatus_to_exitcode(st)
    b = os.fork()
    if b == 0:
        try:
            child_pause(info["script"], 0, w if False else os.open(os.devnull, os.O_WRONLY))
        finally:
            os._exit(99)
    t0 = time.time()
    b_done = False
    while time.time() - t0 < item.get("settle", 0.3):
        pid, st = os.waitpid(b, os.WNOHANG)
        if pid:
            b_done = True
            out["b_exit"] = os.waitstatus_to_exitcode(st)
            break
        time.sleep(0.01)
    out["b_finished_before_resume"] = b_done
    out["log_at_resume"] = (Path(info["dir"]) / "exec.log").read_text().split() if (Path(info["dir"]) / "exec.log").exists() else []
    if not a_done:
        os.kill(a, signal.SIGCONT)
    deadline = time.time() + 20
    for name, pid, done in (("a_exit", a, a_done), ("b_exit", b, b_done)):
        while not done:
            p, st = os.waitpid(pid, os.WNOHANG)
            if p:
                out[name] = os.waitstatus_to_exitcode(st)
                done = True
            elif time.time() > deadline:
                out["hang"] = True
                os.kill(pid, signal.SIGKILL)
                os.waitpid(pid, 0)
                done = True
            else:
                time.sleep(0.01)
    chunks = []
    while True:
        bts = os.read(r, 65536)
        if not bts:
            break
        chunks.append(bts)
    os.close(r)
    for line in b"".join(chunks).decode().splitlines():
        try:
            out.update(json.loads(line))
        except ValueError:
            pass
    d = Path(info["dir"])
    out["log"] = (d / "exec.log").read_text().split() if (d / "exec.log").exists() else []
    out["state"] = observe(info)
    return out


def launch_triple(item):
    """Three launches of the same job script (failing variant, so that a process that obtains the run lock runs the body):
    A stops itself at its k-th line event, B is started, A is resumed; whoever owns the run lock stays inside the body while
    the file `hold` exists.  The first body is let go (it fails and leaves), the second one is held inside its body, and a
    third process C is launched meanwhile: it must wait for the run lock.  Observed: the body log (start/end sequence)."""
    import time
    info = make_job(item["variant"])
    restore(info, item["state"])
    d = Path(info["dir"])
    hold, logp = d / "hold", d / "exec.log"
    hold.write_text("")
    devnull = os.open(os.devnull, os.O_WRONLY)

    def log():
        return logp.read_text().split() if logp.exists() else []

    def wait_for(pred, timeout):
        t0 = time.time()
        while time.time() - t0 < timeout:
            if pred():
                return True
            time.sleep(0.001)
        return pred()

    def spawn(k):
        pid = os.fork()
        if pid == 0:
            try:
                child_pause(info["script"], k, devnull)
            finally:
                os._exit(99)
        return pid
    out = {"hang": False, "phases": []}
    pids = []
    a = spawn(item["k"])
    pids.append(a)
    _, st = os.waitpid(a, os.WUNTRACED)
    a_stopped = os.WIFSTOPPED(st)
    exited = {} if a_stopped else {a: os.waitstatus_to_exitcode(st)}
    b = spawn(0)
    pids.append(b)
    time.sleep(item.get("settle", 0.15))
    if a_stopped:
        os.kill(a, signal.SIGCONT)
    # first body: let it go as soon as it has started
    if wait_for(lambda: log().count("start") >= 1, 8):
        out["phases"].append("first-body")
        try:
            hold.unlink()
        except FileNotFoundError:
            pass
        wait_for(lambda: log().count("end") >= 1, 8)
        hold.write_text("")
        # second body (the other process, once it owns the lock): held inside
        if wait_for(lambda: log().count("start") >= 2, 8):
            out["phases"].append("second-body-held")
            c = spawn(0)
            pids.append(c)
            # C must not enter the body while the second one is in it
            if wait_for(lambda: log().count("start") >= 3, item.get("watch", 0.8)):
                out["phases"].append("third-body-started-while-second-held")
    try:
        hold.unlink()
    except FileNotFoundError:
        pass
    deadline = time.time() + 25
    for pid in pids:
        while pid not in exited:
            p, st = os.waitpid(pid, os.WNOHANG)
            if p:
                exited[pid] = os.waitstatus_to_exitcode(st)
            elif time.time() > deadline:
                out["hang"] = True
                os.kill(pid, signal.SIGKILL)
                os.waitpid(pid, 0)
                exited[pid] = -9
            else:
                time.sleep(0.005)
    os.close(devnull)
    out["exits"] = [exited[p] for p in pids]
    out["log"] = log()
    out["state"] = observe(info)
    return out


def launch_holder(item):
    """The scheduler side of the job lock: a process H takes the run lock through the tree's own connector lock class
    (LocalConnector.lock(path).__enter__, what Scheduler.aio_start does), a job process A is launched meanwhile (it waits for the
    lock; with k > 0 it stops itself at its k-th traced line event and is resumed after H has let go), H leaves the lock
    (__exit__), A - now owner - is held inside its body, and a second job process B is launched: it must wait."""
    import time
    info = make_job(item["variant"])
    restore(info, item["state"])
    d = Path(info["dir"])
    hold, logp, held, release = d / "hold", d / "exec.log", d / "h.held", d / "h.release"
    for f in (held, release):
        if f.exists():
            f.unlink()
    hold.write_text("")
    devnull = os.open(os.devnull, os.O_WRONLY)

    def log():
        return logp.read_text().split() if logp.exists() else []

    def wait_for(pred, timeout):
        t0 = time.time()
        while time.time() - t0 < timeout:
            if pred():
                return True
            time.sleep(0.001)
        return pred()

    def spawn(k):
        pid = os.fork()
        if pid == 0:
            try:
                child_pause(info["script"], k, devnull)
            finally:
                os._exit(99)
        return pid

    h = os.fork()
    if h == 0:
        code = 0
        try:
            os.dup2(devnull, 1)
            os.dup2(devnull, 2)
            from experimaestro.connectors.local import LocalConnector
            lock = LocalConnector.instance().lock(Path(info["lock"]))
            lock.__enter__()
            held.write_text("")
            t0 = time.time()
            while not release.exists() and time.time() - t0 < 20:
                time.sleep(0.001)
            lock.__exit__(None, None, None)
        except BaseException:  # noqa
            code = 3
        finally:
            os._exit(code)
    out = {"hang": False, "phases": []}
    exited = {}
    pids = [h]
    if not wait_for(held.exists, 8):
        out["phases"].append("holder-did-not-lock")
    a = spawn(item["k"])
    pids.append(a)
    a_stopped = False
    if item["k"]:
        _, st = os.waitpid(a, os.WUNTRACED)
        a_stopped = os.WIFSTOPPED(st)
        if not a_stopped:
            exited[a] = os.waitstatus_to_exitcode(st)
    else:
        time.sleep(item.get("settle", 0.25))
    release.write_text("")
    _, st = os.waitpid(h, 0)
    exited[h] = os.waitstatus_to_exitcode(st)
    if a_stopped:
        os.kill(a, signal.SIGCONT)
    if wait_for(lambda: log().count("start") >= 1, 8):
        out["phases"].append("first-body-held")
        b = spawn(0)
        pids.append(b)
        if wait_for(lambda: log().count("start") >= 2, item.get("watch", 0.8)):
            out["phases"].append("second-body-started-while-first-held")
    try:
        hold.unlink()
    except FileNotFoundError:
        pass
    deadline = time.time() + 25
    for pid in pids:
        while pid not in exited:
            p, st = os.waitpid(pid, os.WNOHANG)
            if p:
                exited[pid] = os.waitstatus_to_exitcode(st)
            elif time.time() > deadline:
                out["hang"] = True
                os.kill(pid, signal.SIGKILL)
                os.waitpid(pid, 0)
                exited[pid] = -9
            else:
                time.sleep(0.005)
    os.close(devnull)
    for f in (held, release):
        if f.exists():
            f.unlink()
    out["exits"] = [exited[p] for p in pids]
    out["log"] = log()
    out["state"] = observe(info)
    return out
