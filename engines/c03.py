"""C03 — configurations with different signatures never share an identifier (Engine G)."""
from __future__ import annotations

import json

from .c01 import ROOTS, SEEDS, hash_seeds
from .common import Result, clip_samples
from .genspace import enumerate_with_seeds
from .pool import Pool

PROPERTY = "C03"
LEVEL = "exploration"


def run(ctx):
    res = Result(ctx, LEVEL)
    if ctx.quick:
        descs, hist, capped = enumerate_with_seeds(ROOTS + ["pre"], SEEDS, N=4, k=2, kseed=2)
    else:
        descs, hist, capped = enumerate_with_seeds(ROOTS + ["pre"], SEEDS, N=5, k=3, kseed=3)
    items = [{"G": d} for d in descs]
    with Pool(seeds=hash_seeds(ctx), init="engines.gwork:init", recycle=20000) as pool:
        outs = pool.map("engines.gwork:eval_ids", items)
        marked = pool.map("engines.gwork:eval_marked", [{}])[0]
        from .twork import run_family
        tviol, tstats = run_family(pool, ctx)
    by_id, by_raw = {}, {}
    for it, o in zip(items, outs):
        if "error" in o:
            res.violation("identifier-raises:" + o["error"].split(":")[0], f"{json.dumps(it['G'])[:500]}: {o['error']}", {"G": it["G"], "error": o})
            continue
        by_id.setdefault(o["id"], {}).setdefault(o["sig"], it["G"])
        by_raw.setdefault(o["raw"], {}).setdefault(o["sigraw"], it["G"])
    nsig = set()
    for what, groups in (("full", by_id), ("raw", by_raw)):
        for ident, sigs in groups.items():
            nsig.update(sigs)
            if len(sigs) > 1:
                gs = list(sigs.values())
                res.violation(f"collision:{what}:{family(gs[0], gs[1])}",
                              f"{len(sigs)} different signatures share the {what} identifier {ident[:16]}: {json.dumps(gs[0])[:600]}  ||  {json.dumps(gs[1])[:600]}",
                              {"A": gs[0], "B": gs[1], "identifier": ident, "which": what})
    # add-on family: a task output that is one of the task's own (sealed, already identified) parameter configurations
    mk = {}
    for r in marked:
        if "error" in r:
            res.violation("identifier-raises:marked-parameter", json.dumps(r)[:800], {"marked": r})
            continue
        for what in ("id", "raw"):
            mk.setdefault((what, r[what]), {}).setdefault(r["sig"], r)
    for (what, ident), sigs in mk.items():
        if len(sigs) > 1:
            a, b = list(sigs)[:2]
            res.violation(f"collision:{'full' if what == 'id' else 'raw'}:marked-parameter",
                          f"(embedder, leaf value, producing task) {a} and {b} share the identifier {ident[:16]} (histories {sigs[a]['hist']}, {sigs[b]['hist']})",
                          {"marked": [sigs[a], sigs[b]]})
    for kind, key, msg, payload in tviol:
        if kind in ("collision", "error"):
            res.violation(key, msg, payload)
    res.coverage = {
        "two_threads_family": tstats,
        "marked_parameter_family": {"cases": len(marked), "distinct_signatures": len({r.get("sig") for r in marked if "sig" in r})},
        "evaluations": len(descs) + len(marked) + tstats["executions"],
        "distinct_nontrivial": len(by_id),
        "rule": "every description within (N, k) of the default graphs and seeds (value alphabets chosen so that concatenations, container "
                "boundaries, key/value moves and prefix-related names collide if the encoding lets them), plus the family 'task output = own "
                "parameter of the producing task, marked after it was sealed and identified' (9 embedders x 2 values x 5 producers x 4 request histories) and the family 'two user threads' (Engine T: identifiers observed under every schedule with <= 1 preemption of two real "
                "threads working on configurations that share sub-configurations, for two contents of each shape); real identifiers grouped, every "
                "group must carry exactly one canonical signature (full and raw identifiers separately); distinct_nontrivial = distinct identifiers",
        "samples": clip_samples([descs[3], descs[len(descs) // 2]]),
        "exhaustive": not capped,
        "descriptions": len(descs), "distinct_signatures": len(nsig), "depth_histogram": hist,
    }
    res.assumptions = ["text alphabet without control characters, dicts nested <= 2 levels (the statement's domain)",
                       "own pre-tasks / init tasks of the configuration are signature relevant; init tasks of *embedded* tasks are outside the statement (DESIGN.md C03)"]
    return res


def family(A, B):
    """Coarse description of where two descriptions differ (for the finding key)."""
    na, nb = A["nodes"], B["nodes"]
    if len(na) != len(nb):
        return "structure"
    diffs = set()
    for l in na:
        if l not in nb:
            return "structure"
        a, b = na[l], nb[l]
        if a.get("cls") != b.get("cls"):
            diffs.add("class")
        for k in set(a.get("args", {})) | set(b.get("args", {})):
            if a.get("args", {}).get(k) != b.get("args", {}).get(k):
                diffs.add(k)
        for k in ("meta", "pre", "init"):
            if a.get(k) != b.get(k):
                diffs.add(k)
    return "+".join(sorted(diffs)) or "same"


def replay(ctx, payload):
    from . import gwork, refmodel as R
    gwork.init()
    if "threads" in payload:
        from . import twork
        return twork.replay(payload)
    if "marked" in payload:
        print(json.dumps(payload["marked"], indent=1))
        for r in gwork.eval_marked({}):
            print(r)
        return 0
    for k in ("A", "B"):
        G = payload[k]
        print(k, json.dumps(G), gwork.eval_ids({"G": G}), "signature:", R.signature(G))
    return 0
