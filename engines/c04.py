"""C04 — no job is launched before everything it depends on has succeeded (Engine W + static half on Engine G)."""
import json

from . import wcat
from .wcheck import replay as wreplay, run_w  # noqa

PROPERTY = "C04"
LEVEL = "model_checking"


def run(ctx):
    q = ctx.quick
    rots = tuple(range(0, 9, 2)) if q else tuple(range(9))
    diamond = [s for s in wcat.dag_scenarios(4, rotations=(0, 3), all_orders=False, min_n=4) if len(s["edges"]) >= 3]
    plan = [
        {"scens": wcat.dag_scenarios(3, rotations=rots, all_orders=True), "policies": ("FIFO", "JOBS") if q else ("FIFO", "LIFO", "JOBS"), "bound": 1},
        {"scens": wcat.dag_scenarios(2, rotations=rots, all_orders=True, min_n=2), "policies": ("FIFO",), "bound": 2},
        {"scens": wcat.dag_scenarios(3, rotations=(1,), with_failures=True, all_orders=False, min_n=2), "policies": ("FIFO",), "bound": 0 if q else 1},
        {"scens": diamond[:: (6 if q else 1)], "policies": ("FIFO",), "bound": 1, "cap": 4000},
    ]
    plan.append({"scens": wcat.special_dep_scenarios(), "policies": ("FIFO", "LIFO", "JOBS"), "bound": 1})
    plan.append({"scens": wcat.carry_scenarios(), "policies": ("FIFO", "JOBS"), "bound": 1})
    plan.append({"scens": wcat.wait_scenarios(), "policies": ("FIFO", "JOBS"), "bound": 1})
    # a job that joins dependencies of which some are already over; both iteration orders of the dependency sets ("+rev")
    plan.append({"scens": wcat.latejoin_scenarios(), "policies": wcat.POL_ORDER[:4] if q else wcat.POL_ORDER, "bound": 1})
    plan.append({"scens": wcat.dag_scenarios(3, rotations=(0, 5), all_orders=False, min_n=3), "policies": ("FIFO+rev", "JOBS+rev"), "bound": 1})
    # an upstream job process dies abruptly (no marker) at every point, also when it had been taken back by a second scheduler
    for pol in ("FIFO", "LIFO", "JOBS", "Q:1,2,job"):
        plan.append({"scens": wcat.jobkill_scenarios(), "policies": (pol,), "kills": {"restart_bound": 0}})
    if not q:
        plan.append({"scens": wcat.dag_scenarios(3, rotations=(0, 4), all_orders=False, min_n=3), "policies": ("FIFO",), "bound": 2, "cap": 30000})
    res = run_w(ctx, PROPERTY, plan,
                "every DAG on <=3 nodes (edges i<j) in every topological submission order, every edge realised by an embedding kind (direct "
                "parameter, list element, dict value, nested config, two levels of nesting, Meta parameter, task output, task output in nested "
                "config, pre-task parameter, init-task parameter, explicit dependency) rotated so that each kind visits each edge position; "
                "diamonds on 4 nodes; failing subsets; all schedules within the deviation bound; at every launch event every ancestor (from the "
                "scenario description, not from job.dependencies) must have exited with 0. Static half: job.dependencies after a DRY_RUN submit "
                "equals the reference upstream set for every task description of the Engine-G space")
    static_half(ctx, res)
    return res


def static_half(ctx, res):
    from .genspace import enumerate_with_seeds
    from .pool import Pool
    if ctx.quick:
        descs, _, _ = enumerate_with_seeds(["job", "jobout"], ["job-up", "job-holder", "job-outpre", "job-upx"], N=5, k=3, kseed=1, allow=("struct", "pre"))
    else:
        descs, _, _ = enumerate_with_seeds(["job", "jobout"], ["job-up", "job-holder", "job-outpre", "job-upx"], N=6, k=4, kseed=2, allow=("struct", "pre"))
    with Pool(seeds=[(ctx.seed + i) % 4096 for i in range(16)], init="engines.gwork:init") as pool:
        outs = pool.map("engines.gwork:eval_deps", [{"G": d} for d in descs])
    n, shapes, extra = 0, set(), 0
    for d, o in zip(descs, outs):
        if o.get("skip"):
            continue
        n += 1
        if "error" in o:
            res.violation("static:submit-raises:" + o["error"].split(":")[0], f"{json.dumps(d)[:500]}: {o['error']}", {"static": True, "G": d, "o": o})
            continue
        shapes.add((len(o["want"]), o["sig"]))
        missing = sorted(set(o["want"]) - set(o["got"]))
        if missing:
            res.violation("static:dependencies-missing",
                          f"job.dependencies = {o['got']} but the description implies {o['want']} for {json.dumps(d)[:700]}", {"static": True, "G": d, "o": o})
        elif set(o["got"]) - set(o["want"]):
            # more dependencies than the direct upstream set (the implementation also walks the pre-tasks of an upstream *task*, which
            # are that task's own dependencies already): the property asks for no launch before the dependencies, not for minimality
            extra += 1
    res.coverage["static_descriptions"] = n
    res.coverage["static_distinct"] = len(shapes)
    res.coverage["static_with_redundant_dependencies"] = extra


def replay(ctx, payload):
    if payload.get("static"):
        from . import gwork
        gwork.init()
        print(json.dumps(payload["G"]))
        print(gwork.eval_deps({"G": payload["G"]}))
        return 0
    return wreplay(ctx, payload)
