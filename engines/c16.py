"""C16 — the experiment's job index lists exactly the jobs of the last completed plan (Engine W histories + kills)."""
from . import wcat
from .wcheck import replay, run_w  # noqa

PROPERTY = "C16"
LEVEL = "model_checking"


def run(ctx):
    q = ctx.quick
    h3 = wcat.index_scenarios(3, (1, 2), ("ok", "raise"), (True,))
    h2 = wcat.index_scenarios(2, (1, 2, 3) if not q else (1, 2), ("ok", "raise"), (True, False))
    plan = [
        {"scens": h3, "policies": ("FIFO",), "bound": 0},
        {"scens": h2, "policies": ("FIFO", "LIFO"), "bound": 1, "cap": 3000},
        {"scens": h2[:: (7 if q else 1)], "policies": ("JOBS",), "bound": 1, "cap": 4000},
        {"scens": wcat.index_mode_scenarios(), "policies": ("FIFO",), "bound": 0},
        {"scens": wcat.index_twoproc_scenarios(), "policies": ("FIFO", "LIFO"), "bound": 1 if q else 2, "demote": True, "cap": 30000},
        {"scens": wcat.index_kill_scenarios(), "policies": ("FIFO",), "kills": {"restart_bound": 0}},
        {"scens": wcat.index_blocked_scenarios(), "policies": ("FIFO",), "kills": {"restart_bound": 0}},
        {"scens": wcat.index_blocked_scenarios(), "policies": ("LIFO",), "kills": {"restart_bound": 0}},
        {"scens": wcat.index_blocked_scenarios(), "policies": ("Q:1,2,job",), "kills": {"restart_bound": 0}},
    ]
    return run_w(ctx, PROPERTY, plan,
                 "all histories of 3 runs of one experiment name over subsets of two jobs x {normal end, exception in the block} (512), all histories of 2 "
                 "runs with the exception raised with / without waiting, under schedules within the bound; a completed run followed by a run killed at "
                 "every scheduling point (fine-grained: inside the link moving of __enter__, between link and directory creation, ...) and examined / "
                 "re-run by a fresh process; two processes entering the same experiment; after every run the index (jobs, jobs.bak, link targets) is "
                 "read and the real `orphans` command is run",
                 extra_assumptions=["the experiment lock is modelled as a blocking POSIX lock (fasteners with blocking=True): the second process waits"])
