"""C09 — tokens are always given back and waiting jobs eventually run (Engine W)."""
from . import wcat
from .wcheck import replay, run_w  # noqa

PROPERTY = "C09"
LEVEL = "model_checking"


def run(ctx):
    q = ctx.quick
    two = [s for s in wcat.twoproc_scenarios() if s["family"] == "2proc:tok"]
    plan = [
        {"scens": wcat.token_scenarios(("file", "process")), "policies": ("FIFO", "LIFO") if q else ("FIFO", "LIFO", "JOBS"), "bound": 1 if q else 2, "demote": True, "cap": 40000},
        {"scens": wcat.token_and_dependency_scenarios(), "policies": ("FIFO", "JOBS"), "bound": 1, "demote": True},
        # the token defined again by a second process with a larger capacity while a job waits for more than the old one; real and coarse time stamps
        {"scens": wcat.token_redefined_scenarios(), "policies": ("FIFO", "LIFO") + wcat.POL_PROC[:2] + wcat.POL_EAGER, "bound": 1},
        {"scens": wcat.token_again_scenarios(), "policies": ("FIFO", "LIFO", "JOBS"), "bound": 1, "demote": True},
        {"scens": two, "policies": wcat.POL_WIDE, "bound": 1, "cap": 60000},
        # one deviation, including the "long preemption" (the default actor is descheduled until nothing else can run), under
        # process-priority policies as well; two deviations under FIFO in the thorough tier
        {"scens": two, "policies": ("FIFO", "LIFO", "JOBS") + wcat.POL_PROC + wcat.POL_EAGER, "bound": 1, "demote": True, "cap": 60000},
        *([] if q else [{"scens": two, "policies": ("FIFO",), "bound": 2, "cap": 600000},
                        # two long preemptions (and nothing else) around every process-priority policy
                        {"scens": two, "policies": ("FIFO", "LIFO") + wcat.POL_PROC, "bound": 2, "demote": "only", "cap": 200000}]),
        # thorough: two deviations at most 15 scheduling steps apart under LIFO as well
        *([] if q else [{"scens": two, "policies": ("LIFO",), "bound": 2, "window": 15, "demote": True, "cap": 400000}]),
        # scheduler killed while its jobs hold tokens; the restarted scheduler must reclaim them (TokenFile.watch)
        {"scens": [k for k in wcat.kill_scenarios() if "token" in k["name"]], "policies": ("FIFO",), "kills": {"restart_bound": 0}},
        {"scens": [k for k in wcat.kill_scenarios() if "token" in k["name"]], "policies": ("LIFO",), "kills": {"restart_bound": 0}},
        # the holder fails / is killed and is launched again by its scheduler while a second process has jobs on the token
        {"scens": wcat.token_relaunch_scenarios(), "policies": wcat.POL_PROC[:2] + ("FIFO",), "bound": 1, "demote": True, "cap": 60000},
    ]
    for pol in ("FIFO", "Q:1,2,job", "Q:2,1,job"):
        plan.append({"scens": wcat.jobkill_relaunch_scenarios(), "policies": (pol,), "kills": {"restart_bound": 0}})
    return run_w(ctx, PROPERTY, plan,
                 "the C08 workloads; endings: success, failure, aborted start (LockError), another process holding the token; at quiescence: no hang "
                 "(a waiting job whose request fits was launched), no token file left, available == total in every live process, no library thread "
                 "(observer, watcher) died")
