"""C02 — the identifier ignores everything documented as outside the signature (Engine G)."""
from __future__ import annotations

import json

from .c01 import hash_seeds, ROOTS, SEEDS
from .genspace import enumerate_with_seeds
from .common import HarnessError, Result, clip_samples
from .pool import Pool

PROPERTY = "C02"
LEVEL = "exploration"


def run(ctx):
    res = Result(ctx, LEVEL)
    # every description gets ~40 edits, each a full build: one deviation less than C01 in the quick tier
    if ctx.quick:
        descs, hist, capped = enumerate_with_seeds(ROOTS, SEEDS, N=4, k=1, kseed=1)
        extra, _, _ = enumerate_with_seeds(['box', 'job'], [], N=4, k=2, allow=('struct', 'pre'))
        seen = {json.dumps(d, sort_keys=True) for d in descs}
        descs += [d for d in extra if json.dumps(d, sort_keys=True) not in seen]
    else:
        descs, hist, capped = enumerate_with_seeds(ROOTS, SEEDS, N=5, k=2, kseed=2)
    items = [{"G": d} for d in descs]
    with Pool(seeds=hash_seeds(ctx), init="engines.gwork:init", recycle=3000) as pool:
        probs = pool.map_on("engines.gwork:schema_problems", [None], [0])[0]
        outs = pool.map("engines.gwork:eval_c02", items)
        cfgdef = pool.map_on("engines.gwork:eval_cfgdefault", [{}, {}], [ctx.seed, ctx.seed + 1])
    for p in probs:
        res.violation("schema:" + p.split(":")[0], "a parameter kind takes part in the signature differently from what is documented: " + p, {"schema": p})
    edits, kinds, sigs = 0, {}, set()
    samples = []
    for it, o in zip(items, outs):
        edits += o["edits"]
        sigs.add(o["sig"])
        for k, v in o["kinds"].items():
            kinds[k] = kinds.get(k, 0) + v
        for m in o["mismatches"]:
            if m["kind"] == "ORACLE":
                raise HarnessError(f"reference signature says edit {m['edit']} is not neutral on {json.dumps(it['G'])[:300]}")
            if m["kind"] == "base-raises":
                res.violation("identifier-raises", f"{json.dumps(it['G'])[:400]}: {m['error']}", {"G": it["G"], "m": m})
            elif m["kind"] == "raises":
                res.violation(f"edit-raises:{m['edit']}", f"neutral edit {m['edit']} on {json.dumps(it['G'])[:400]} raised {m['error']}", {"G": it["G"], "m": m})
            else:
                res.violation(f"changed:{m['edit']}", f"neutral edit {m['edit']} changed the identifier {m['before'][:16]} -> {m['after'][:16]}; "
                              f"before: {json.dumps(it['G'])[:500]} after: {json.dumps(m['H'])[:500]} {m.get('spec') or ''}", {"G": it["G"], "m": m})
    # add-on family: parameters whose default is a configuration - every way of writing the default value, in every class /
    # sealing history, must give one identifier per content; other contents must give other identifiers
    ncfg, by_content, by_id = 0, {}, {}
    for rows in cfgdef:
        for r in rows:
            ncfg += 1
            if "error" in r:
                res.violation("edit-raises:cfgdefault", json.dumps(r)[:800], {"cfgdefault": r})
                continue
            by_content.setdefault(r["content"], []).append(r)
            by_id.setdefault(r["id"], {}).setdefault(r["content"].replace(":DboxV2", "").replace(":Dbox", ""), r)
    for content, rows in by_content.items():
        ref = next((r for r in rows if r["writing"] in ("unset", "other-i", "other-s") and r["hist"] == "unsealed"), rows[0])
        for r in rows:
            if r["id"] != ref["id"] or r.get("raw") != ref.get("raw"):
                res.violation(f"changed:cfgdefault:{r['writing']}:{r['hist']}",
                              f"configuration-valued default, content {content}: written as {r['how']} the identifier is {r['id'][:16]}, written as {ref['how']} it is {ref['id'][:16]}",
                              {"cfgdefault": [ref, r]})
        rel = {r["relpath"] for r in rows if "relpath" in r and r["id"] == ref["id"]}
        if len(rel) > 1:
            res.violation("changed:cfgdefault:job-directory", f"content {content}: job directories {sorted(rel)}", {"cfgdefault": rows[:2]})
    for ident, contents in by_id.items():
        if len(contents) > 1:
            a, b = list(contents)[:2]
            res.violation("collision:cfgdefault", f"different contents {a} / {b} share the identifier {ident[:16]}", {"cfgdefault": [contents[a], contents[b]]})
    edits += ncfg
    kinds["cfgdefault"] = ncfg
    for d in (descs[1], descs[len(descs) // 3]):
        samples.append({"description": d})
    res.coverage = {
        "evaluations": edits,
        "distinct_nontrivial": len(sigs),
        "rule": "every description of the C01 space x every applicable signature-neutral edit at every node (explicit default, explicit None, "
                "Meta/Option/Path value changed, ignored config set, meta=True element added to a list/dict, change below a meta=True "
                "sub-configuration, tag, token / explicit dependency, launcher, run mode, workspace, class replaced by its extended twin), plus the family 'default value that is itself a configuration' (8 writings x 2 classes "
                "x 2 embeddings x 4 sealing histories, two processes); "
                "evaluations = edits applied and compared; distinct_nontrivial = distinct canonical signatures among the base descriptions",
        "samples": clip_samples(samples),
        "exhaustive": not capped,
        "descriptions": len(descs), "edit_kinds": kinds, "depth_histogram": hist,
    }
    res.assumptions = ["the reference signature (refmodel.signature) is the reading of the documentation; an edit it does not consider neutral stops the check (exit 2)",
                       "generated paths cannot be assigned by users; their neutrality is covered by workspace / launcher variation"]
    return res


def replay(ctx, payload):
    from . import gwork
    gwork.init()
    if "cfgdefault" in payload:
        print(json.dumps(payload["cfgdefault"], indent=1))
        for r in gwork.eval_cfgdefault({}):
            print(r)
        return 0
    G = payload["G"]
    print("base:", json.dumps(G), gwork._ids_of(G)[G["root"]])
    m = payload["m"]
    if "H" in m:
        print("edited:", json.dumps(m["H"]), m.get("spec"), gwork._ids_of(m["H"], m.get("spec"))[G["root"]])
    return 0
