"""C17 — generated paths are private to the job, distinct and reproducible (Engine G)."""
from __future__ import annotations

import json

from .c01 import SEEDS, hash_seeds
from .common import Result, clip_samples
from .genspace import enumerate_with_seeds
from .pool import Pool

PROPERTY = "C17"
LEVEL = "exploration"


def run(ctx):
    res = Result(ctx, LEVEL)
    seeds = ["job-up", "job-holder"]
    if ctx.quick:
        descs, hist, capped = enumerate_with_seeds(["job", "jobout"], seeds, N=5, k=3, kseed=1, allow=("struct", "pre"))
    else:
        descs, hist, capped = enumerate_with_seeds(["job", "jobout"], seeds, N=6, k=4, kseed=2, allow=("struct", "pre"))
    items = [{"G": d} for d in descs]
    with Pool(seeds=hash_seeds(ctx), init="engines.gwork:init", recycle=5000) as pool:
        # every description is evaluated in two worker processes with different PYTHONHASHSEED (another run of the same plan)
        outs = pool.map_on("engines.gwork:eval_c17", items, [i + ctx.seed for i in range(len(items))])
        outs2 = pool.map_on("engines.gwork:eval_c17", items, [i + ctx.seed + 1 for i in range(len(items))])
    for it, o, o2 in zip(items, outs, outs2):
        if o.get("rel") != o2.get("rel") or o.get("job") != o2.get("job"):
            res.violation("not-reproducible:other-process", f"two processes (different PYTHONHASHSEED) generated different paths for the same configuration: "
                          f"{o.get('job')} {o.get('rel')}  vs  {o2.get('job')} {o2.get('rel')} for {json.dumps(it['G'])[:600]}", {"G": it["G"], "problem": {"a": o.get("rel"), "b": o2.get("rel")}})
    if True:
        pass
    npaths, layouts = 0, set()
    for it, o in zip(items, outs):
        npaths += o["paths"]
        if o["paths"]:
            layouts.add(tuple(sorted(o["positions"])))
        for p in o["problems"]:
            res.violation(p["kind"] + (":" + p["how"] if p.get("how") else ""), f"{p} for {json.dumps(it['G'])[:700]}", {"G": it["G"], "problem": p})
    res.coverage = {
        "evaluations": npaths,
        "distinct_nontrivial": len(layouts),
        "rule": "every task description within (N,k) structural deviations (generated-path parameters at task level, in nested configurations, list "
                "elements, dict values, shared sub-configurations, pre-tasks, init tasks, two generated parameters on one object) submitted five times "
                "(every construction style / order) in DRY_RUN, in two processes with different PYTHONHASHSEED; evaluations = generated paths checked; distinct_nontrivial = distinct sets of relative path positions",
        "samples": clip_samples([sorted(l) for l in list(layouts)[:3]]),
        "exhaustive": not capped, "descriptions": len(descs),
    }
    res.assumptions = ["plain file names only (as in the statement)",
                       "sub-configurations sealed earlier by the submission of an embedded task keep the paths of that task's job directory and are not counted"]
    return res


def replay(ctx, payload):
    from . import gwork
    gwork.init()
    print(json.dumps(payload["G"]))
    print(gwork.eval_c17({"G": payload["G"]}))
    return 0
