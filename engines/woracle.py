"""Engine W, part 4: oracles over one complete execution (event log + what the user scripts recorded)."""
from __future__ import annotations

from .wscen import ancestors, spec_jobs, token_caps

FINAL = ("DONE", "ERROR")


def analyze(scen, r, props):
    """Returns [(property, key, message)] for the clauses of the requested properties."""
    out = []
    fam = scen.get("family", scen.get("name", "?"))
    jobs = spec_jobs(scen)
    pre_done = set(scen.get("pre_done", []))
    ev = r["events"]
    name_x = {f"j{x}": x for x in jobs}
    expect_hang = scen.get("expect_hang", False)

    def V(prop, clause, msg):
        if prop in props:
            out.append((prop, f"{clause}:{fam}", msg))

    # ---- generic: harness-level trouble is everybody's business
    if r.get("harness_error"):
        for p in props:
            out.append((p, "HARNESS", r["harness_error"]))
        return out
    for pid, (tn, tv, tb) in (r.get("main_exc") or {}).items():
        V("C06", f"script-raised:{tn}", f"user script of process {pid} raised {tn}: {tv}\n{tb[-600:]}")
        V("C09", f"script-raised:{tn}", f"user script of process {pid} raised {tn}: {tv}")
        V("C11", f"script-raised:{tn}", f"user script of process {pid} raised {tn}: {tv}")
        V("C05", f"script-raised:{tn}", f"user script of process {pid} raised {tn}: {tv}")
        V("C16", f"script-raised:{tn}", f"user script of process {pid} raised {tn}: {tv}")
    if r.get("dead_actors"):
        names = sorted({a.split(":")[0] for a, _ in r["dead_actors"]})
        V("C06", f"actor-died:{'+'.join(names)}", f"library threads died with an exception: {r['dead_actors'][:3]}")
        V("C09", f"actor-died:{'+'.join(names)}", f"library threads died with an exception: {r['dead_actors'][:3]}")
    if r.get("hung") and not expect_hang and scen.get("may_starve"):
        # scenario flag may_starve {job variable: amount it requests}: the capacity of the token depends on which process defined it
        # last; a job that requests more than the capacity its own process sees at the end "does not fit" - its waiting is no hang
        # (the capacity is what token.info says on disk at the end - not what a process believes)
        tot = {t["pid"]: t.get("info") for t in (r.get("tokens_end") or []) if t.get("info") is not None}
        waiting = {v: (j, s) for tag, s in r.get("scripts", {}).items() for v, j in s["jobs"].items() if j["state"] not in FINAL}
        if tot and waiting and all(v in scen["may_starve"] and scen["may_starve"][v] > max(tot.values()) for v in waiting):
            expect_hang = True
    if r.get("hung") and not expect_hang:
        who = sorted({h.split(":")[0] for h in r["hung"]})
        waiting = {v: j["state"] for s in r.get("scripts", {}).values() for v, j in s["jobs"].items() if j["state"] not in FINAL}
        for p in ("C06", "C09", "C11", "C05", "C07", "C16"):
            V(p, f"hang:{'+'.join(who)}", f"quiescent but not finished: blocked {r['hung']}; non-final jobs {waiting}; tokens "
              f"{[s['tokens'] for s in r.get('scripts', {}).values()]}")

    # ---- walk the event log
    succeeded = set(f"j{x}" for x in pre_done)
    failed = set()
    running = {}          # jobid -> vpid of running bodies
    ok_body = set()       # jobids with a successful body
    launches = {}
    exits = {}
    final_of = {}         # job object index -> final state seen
    state_now = {}
    xp_jobs_final_violation = None
    live = {}             # vpid -> job name (launch .. exit)
    tokfiles = {}         # tokdir -> set of jobid prefixes
    caps = token_caps(scen)
    capname = {name: (var, cap) for var, (name, cap, kind) in caps.items()}
    caps_by_name = {}
    for var, (name, cap, kind) in caps.items():
        tv, c = caps_by_name.get(name, ([], 0))
        caps_by_name[name] = (tv + [var], max(c, cap))
    req = {}              # job name -> {tokvar: n}
    for x, j in jobs.items():
        req[f"j{x}"] = {t: n for t, n in j["tok"]}
    adoptable = set()     # (job id, scheduler pid): a live process with a complete pid file existed when it was submitted
    live_job = {}         # vpid -> job id
    published = set()     # job ids whose pid file has been written completely
    id2name = {e[5]: e[1] for e in ev if e[0] == "state" and e[5]}
    submitted_at = {}     # (jobid, scheduler pid) -> event index of the latest submission
    done_at = {}          # jobid -> event index of the first successful exit
    for i, e in enumerate(ev):
        k = e[0]
        if k == "launch":
            _, name, jobid, owner, vpid = e
            id2name[jobid] = name
            if "C11" in props and jobid in published and any(live_job.get(v) == jobid for v in live):
                V("C11", "relaunched-while-running", f"{name}: a new process was launched while process {[v for v in live if live_job.get(v) == jobid]} of the same job "
                  f"(pid file published) is still running - it should have been adopted")
            if "C11" in props and (jobid, owner) in adoptable and not any(c != 0 for c in exits.get(jobid, [])):
                # (a process that has failed in the meantime is legitimately launched again)
                V("C11", "relaunched-instead-of-adopted", f"{name}: its process was running (pid file complete) when scheduler {owner} submitted it, "
                  f"yet that scheduler launched it again (event {i})")
            launches.setdefault(jobid, []).append(i)
            live[vpid] = name
            live_job[vpid] = jobid
            sub = submitted_at.get((jobid, owner))
            if jobid in done_at and sub is not None and done_at[jobid] < sub:
                V("C05", "launched-despite-success-marker", f"{name} was submitted (event {sub}) after it had succeeded (event {done_at[jobid]}) and was launched again")
            x = name_x.get(name)
            if x is not None and x not in scen.get("ambiguous", ()):
                for a in sorted(ancestors(jobs, x)):
                    if f"j{a}" not in succeeded:
                        V("C04", "launch-before-dependency-succeeded", f"{name} launched (event {i}) while its dependency j{a} has not succeeded; "
                          f"states {state_now}")
                    if f"j{a}" in failed and f"j{a}" not in succeeded:
                        V("C07", "launch-after-failed-ancestor", f"{name} launched although j{a} failed")
                if x in pre_done:
                    V("C05", "launched-despite-success-marker", f"{name} has a success marker in the workspace and was launched again")
            # capacity: processes alive under each token
            # (a token name defined several times - e.g. by two experiments of one process - is ONE token: the holdings under all
            # its definitions count together, against the largest total ever declared for it)
            for tname, (tvars, cap) in caps_by_name.items():
                held = sum(req.get(n, {}).get(tvar, 0) for n in live.values() for tvar in tvars)
                if held > cap:
                    V("C08", "capacity-exceeded:processes", f"token {tname}: jobs {sorted(live.values())} run together holding {held} > {cap}")
        elif k == "body_start":
            _, name, jobid, vpid = e
            if jobid in running:
                V("C05", "two-bodies-at-once", f"{name}: body started by process {vpid} while process {running[jobid]} is still running it")
                V("C11", "two-bodies-at-once", f"{name}: body started by process {vpid} while process {running[jobid]} is still running it")
            if jobid in ok_body:
                V("C05", "rerun-after-success", f"{name}: body started again after it had succeeded")
            running[jobid] = vpid
        elif k == "body_end":
            _, name, jobid, vpid, code = e
            running.pop(jobid, None)
            if code == 0:
                ok_body.add(jobid)
        elif k == "rmjob":
            # the user removed the directory of the job: it has not succeeded any more, running it again is legitimate
            _, var, name, jobid = e
            succeeded.discard(name)
            done_at.pop(jobid, None)
            ok_body.discard(jobid)
        elif k == "marker_done":
            # the success marker is written: the job has succeeded, whatever happens to the rest of its process
            succeeded.add(e[1])
            done_at.setdefault(e[2], i)
        elif k == "released":
            # a job "runs under the token" until it gives up its run lock (what is left is the exit of the interpreter)
            live.pop(e[3], None)
        elif k == "exit":
            _, name, jobid, vpid, code = e
            live.pop(vpid, None)
            if code == -9 and running.get(jobid) == vpid:
                running.pop(jobid, None)
            exits.setdefault(jobid, []).append(code)
            if code == 0:
                succeeded.add(name)
                done_at.setdefault(jobid, i)
            else:
                failed.add(name)
        elif k == "state":
            _, name, idx, old, new, _jid, _pid = e
            if old == "UNSCHEDULED" and _jid:
                submitted_at[(_jid, _pid)] = i
                if _jid in published and any(live_job.get(v) == _jid for v in live):
                    # a process of this job is running and its pid file is complete: it must be adopted
                    adoptable.add((_jid, _pid))
            if idx in final_of and new != final_of[idx]:
                V("C06", f"final-state-changed:{final_of[idx]}->{new}", f"{name} (job object {idx}) was {final_of[idx]} and became {new} (event {i})")
                final_of[idx] = new if new in FINAL else final_of[idx]
            if new in FINAL:
                final_of.setdefault(idx, new)
            state_now[f"{name}#{idx}"] = new
        elif k == "tok":
            _, pid, kind, tokdir, fid = e
            s = tokfiles.setdefault(tokdir, set())
            if kind in ("create", "truncate", "write"):
                s.add(fid)
            elif kind == "unlink":
                s.discard(fid)
            tname = tokdir.rsplit(".counter", 1)[0]
            if tname in caps_by_name:
                tvars, cap = caps_by_name[tname]
                held = sum(req.get(id2name.get(f, "?"), {}).get(tvar, 0) for f in s for tvar in tvars)
                # a token file is written before the launch: map by job identifier recorded by the scripts
                if held > cap:
                    V("C08", "capacity-exceeded:token-files", f"token {tname}: token files {sorted(s)} together hold {held} > {cap}")
        elif k == "fs":
            if e[2] == "rename" and e[3].endswith(".pid.tmp") and len(e) > 4:
                published.add(e[4])
            elif e[2] == "unlink" and e[3].endswith(".pid") and len(e) > 4:
                published.discard(e[4])
        elif k == "xp_exit":
            pass

    def launches_after_failure(name):
        """was `name` launched after one of its ancestors had failed (then it is no 'earlier success')"""
        return False

    # ---- what the scripts recorded
    for tag, rec in r.get("scripts", {}).items():
        # a script that did not finish (hang / killed) has nothing more to say
        finished = rec["jobs"] != {} or rec["xps"]
        any_error = False
        for var, j in rec["jobs"].items():
            if j.get("dup") or (scen.get("dup_threads") and j["state"] == "UNSCHEDULED"):
                # the job object of a duplicate submission is discarded by the scheduler
                continue
            x, st = j["x"], j["state"]
            name = f"j{x}"
            jobid = j["id"]
            if st not in FINAL:
                continue
            if st == "ERROR":
                any_error = True
            codes = exits.get(jobid, [])
            if x in scen.get("ambiguous", ()):
                # the statement does not decide the fate of this job (e.g. a dependent built from the handle of a failed submission
                # while the same task, submitted again, succeeds): only finality, hang and wait() clauses apply to it
                if j["future"] not in (None, st):
                    V("C06", f"wait-returns-other-state:{j['future']}", f"waiting on {name} ({var}) returns {j['future']} but the job is {st}")
                continue
            # an ancestor counts as failed for this scheduler when *its* job object for it ended in error (several
            # schedulers may see different fates of one job); jobs it did not submit: by the processes' exit codes
            local = {jj["x"]: jj["state"] for jj in rec["jobs"].values() if not jj.get("dup")}
            anc_failed = []
            for a in (ancestors(jobs, x) if x in jobs else []):
                if a in local:
                    if local[a] == "ERROR":
                        anc_failed.append(a)
                elif f"j{a}" in failed and f"j{a}" not in succeeded:
                    anc_failed.append(a)
            killed_here = -9 in codes
            # (a process killed after it had written its success marker leaves the marker: "or its success marker already existed")
            if st == "DONE" and not (0 in codes or x in pre_done or name in succeeded or scen.get("markers_from_other_process")):
                V("C06", "done-without-success", f"{name} ({var}) is DONE but no process of it exited with 0 (exit codes {codes})")
            if st == "ERROR" and x not in pre_done:
                if not anc_failed and not any(c != 0 for c in codes) and not scen.get("kill"):
                    V("C06", "error-without-failure", f"{name} ({var}) is ERROR but its process did not fail (exit codes {codes}) and no dependency failed")
            if len(codes) == 1 and len(launches.get(jobid, [])) == 1 and not anc_failed and x not in pre_done and len(jobs.get(x, {}).get("codes", [])) == 1:
                want = "DONE" if codes[0] == 0 else "ERROR"
                if st != want:
                    V("C06", f"state-not-truthful:{want}->{st}", f"{name} ({var}) exited with {codes[0]} but its state is {st}")
            if j["future"] not in (None, st):
                V("C06", f"wait-returns-other-state:{j['future']}", f"waiting on {name} ({var}) returns {j['future']} but the job is {st}")
            # C07: containment
            if x in jobs and x not in pre_done:
                if anc_failed and name in succeeded and 0 in codes and not launches_after_failure(name):
                    # "unless it had already succeeded in an earlier run": the marker decides
                    if st != "DONE":
                        V("C07", "earlier-success-not-done", f"{name} had succeeded in an earlier run (marker present) and depends on failed {anc_failed}: it ended {st}")
                elif anc_failed:
                    if launches.get(jobid):
                        pass  # reported at the launch
                    if st != "ERROR":
                        V("C07", "dependent-not-cancelled", f"{name} depends on failed {anc_failed} but ended {st}")
                    elif j["failure"] != "DEPENDENCY":
                        V("C07", "dependent-failure-status", f"{name} depends on failed {anc_failed}, ended ERROR with failure status {j['failure']}")
                elif len(jobs[x]["codes"]) == 1 and not killed_here:
                    want = "DONE" if jobs[x]["codes"][0] == 0 else "ERROR"
                    if st != want:
                        V("C07", f"independent-job-not-{want.lower()}", f"{name} has no failed ancestor and code {jobs[x]['codes'][0]} but ended {st}")
        for var, st in rec.get("waits", {}).items():
            fin = rec["jobs"].get(var, {}).get("state")
            if fin in FINAL and st != fin:
                V("C06", f"wait-returns-other-state:{st}", f"job.wait() on {var} returned {st}, the job ended {fin}")
            if st not in FINAL:
                V("C06", f"wait-returns-non-final:{st}", f"job.wait() on {var} returned {st}")
        for xr in rec["xps"]:
            if xr["exc"] is None and rec["raised"] is None and not r.get("hung"):
                if xr["unfinished"] not in (0, None):
                    V("C06", f"unfinished-count:{xr['unfinished']}", f"experiment {xr['name']} ended with unfinishedJobs={xr['unfinished']}")
                mine = lambda j: (j.get("xpi") == xr["index"]) if (j.get("xpi") is not None and xr.get("index") is not None) else (j.get("xp") == xr["name"])
                errs = [v for v, j in rec["jobs"].items() if j["state"] == "ERROR" and mine(j)]
                nonfinal = [v for v, j in rec["jobs"].items() if j["state"] not in FINAL and mine(j) and not j.get("dup")
                            and not (scen.get("dup_threads") and j["state"] == "UNSCHEDULED")]
                if nonfinal:
                    V("C06", "experiment-exited-early", f"experiment {xr['name']} returned while {nonfinal} are not final")
                resubmitted = any(len(j["codes"]) > 1 for j in jobs.values())
                if bool(errs) != xr["failed"] and not resubmitted:
                    V("C07", f"exit-reports-{'failure' if xr['failed'] else 'success'}", f"experiment {xr['name']}: jobs in error {errs}, FailedExperiment raised: {xr['failed']}")
        if scen.get("dup_threads"):
            ids = {}
            for var, j in rec["jobs"].items():
                ids.setdefault(j["id"], []).append(var)
            for xr in rec["xps"]:
                if xr["registry"] is not None and xr["registry"] != len(ids):
                    V("C05", "registry-size", f"{xr['registry']} registry entries for {len(ids)} distinct job identifiers")
            for jid, ls in launches.items():
                if len(ls) > 1 and not any(c != 0 for c in exits.get(jid, [])):
                    V("C05", "two-processes-for-one-submission-set", f"{id2name.get(jid)}: {len(ls)} processes launched by one scheduler for identical submissions")
            for e in rec.get("thread_exc", []):
                V("C05", "thread-raised", f"user thread raised {e}")
        for d in rec["dups"]:
            if not d.get("after_fail") and not d["same_output"]:
                if "NoneType" in d.get("outputs", []):
                    V("C05", "duplicate-submission-returns-none", f"a submission identical to {d['of']}, made by another thread while the first was still inside "
                      f"submit(), got None instead of the first submission's output: {d}")
                else:
                    V("C05", "duplicate-submission-new-job", f"submitting a configuration identical to {d['of']} returned another output / job: {d}")
    # C11: over the killed run and the restarted run every successful body ran exactly once, everything ends DONE
    if "C11" in props and scen.get("restart") and not r.get("hung") and not r.get("main_exc"):
        starts = {}
        for e in ev:
            if e[0] == "body_start":
                starts[e[1]] = starts.get(e[1], 0) + 1
        rec = r.get("scripts", {}).get("restart")
        killed = any(e[0] == "KILL" for e in ev)
        failing = {x for x, j in jobs.items() if any(c != 0 for c in j["codes"])}
        if rec is not None:
            for x, j in jobs.items():
                blocked = bool(ancestors(jobs, x) & failing)
                if all(c == 0 for c in j["codes"]):
                    n = starts.get(f"j{x}", 0)
                    if n != (0 if blocked else 1):
                        V("C11", f"body-executed-{n}-times", f"j{x}: body executed {n} times over the killed run and the restarted run "
                          f"(kill at {[e for e in ev if e[0] == 'KILL']})")
            for var, j in rec["jobs"].items():
                blocked = bool(ancestors(jobs, j["x"]) & failing)
                want = "DONE" if (all(c == 0 for c in jobs[j["x"]]["codes"]) and not blocked) else "ERROR"
                if j["state"] != want:
                    V("C11", f"restart-final-state:{j['state']}", f"after the restart {var} (j{j['x']}) is {j['state']}, expected {want}")
        for t in r.get("tokens_end", []):
            if t["files"]:
                V("C11", "token-file-left", f"token {t['name']} (process {t['pid']}): files {t['files']} left after the restarted run")
            if t["available"] != t["total"]:
                V("C11", "idle-token-not-full", f"token {t['name']} (process {t['pid']}): available {t['available']} != total {t['total']} after the restarted run")

    # C12: what a (re-)launched job process reads from its parameter file is what the submission that caused the launch configured
    # (the virtual job process takes its exit code from the Meta parameter `code` of the real params.json)
    if scen.get("expect_exits") and not r.get("hung") and not r.get("main_exc"):
        for x, want in scen["expect_exits"].items():
            got = [int(e[4]) for e in ev if e[0] == "body_end" and e[1] == f"j{x}"]
            if got != list(want):
                V("C12", "task-observes-other-parameters", f"j{x}: the processes launched for the successive submissions were configured with code {list(want)} "
                  f"(Meta parameter, outside the identifier) but read {got} from params.json")

    # C09: at quiescence an idle token shows its full capacity (file-based tokens of every live process)
    if not r.get("hung") and not r.get("main_exc"):
        for t in r.get("tokens_end", []):
            if t["files"]:
                V("C09", "token-file-left", f"token {t['name']} (process {t['pid']}): files {t['files']} left after all jobs ended")
            if t["available"] != t["total"]:
                V("C09", "idle-token-not-full", f"token {t['name']} (process {t['pid']}): available {t['available']} != total {t['total']} with no job running")
        for tag, rec in r.get("scripts", {}).items():
            for var, t in rec["tokens"].items():
                if not t["files"] and t["total"] is not None and "path" not in t and t["available"] != t["total"] and caps.get(var, (0, 0, "file"))[2] == "process":
                    V("C09", "idle-token-not-full", f"process token {var}: available {t['available']} != total {t['total']} with no job running")
    return out


def outcome(scen, r):
    """Digest of the observable outcome of an execution (evidence: number of distinct outcomes)."""
    parts = []
    for tag, rec in sorted(r.get("scripts", {}).items()):
        parts.append((tag, sorted((v, j["state"], j["future"]) for v, j in rec["jobs"].items()),
                      [(x["failed"], x["unfinished"]) for x in rec["xps"]], sorted(rec["tokens"].items(), key=str)))
    order = tuple(e[1] for e in r["events"] if e[0] == "launch")
    return repr((parts, order, tuple(r.get("hung", [])), sorted((r.get("main_exc") or {}).keys())))


def analyze_index(scen, r):
    """C16 oracle: the job index after each run of the history."""
    out = []
    fam = scen.get("family", "index")

    def V(clause, msg):
        out.append(("C16", f"{clause}:{fam}", msg))

    # experiment held by two processes at once?
    holders = {}
    for e in r["events"]:
        if e[0] == "xp_enter":
            if holders.get(e[1]) not in (None, e[2]):
                V("experiment-held-twice", f"experiment {e[1]} entered by process {e[2]} while process {holders[e[1]]} holds it")
            holders[e[1]] = e[2]
        elif e[0] == "xp_body_end":
            if holders.get(e[1]) == e[2]:
                holders[e[1]] = None
        elif e[0] == "KILL":
            for k, v in list(holders.items()):
                if v == e[1]:
                    holders[k] = None
    # histories: the scenario lists its runs [{"jobs": [x...], "end": "ok"|"raise"|"kill"}] per script, index snapshots follow each run
    kill_at = next((i for i, e in enumerate(r["events"]) if e[0] == "KILL"), None)
    for tag, runs in (scen.get("history") or {}).items():
        rec = r.get("scripts", {}).get(tag)
        if rec is None:
            continue
        if scen.get("only_if_other_killed_first"):
            # the index is only looked at when the competing process was already dead when this block ended
            # (otherwise it may legitimately be rewriting the index while we look at it)
            end = next((i for i, e in enumerate(r["events"]) if e[0] == "xp_exit" and f"p{e[2]}" == tag), None)
            if kill_at is None or end is None or kill_at > end:
                continue
        snaps = rec.get("index", [])
        ids = {int(e[1][1:]): e[5] for e in r["events"] if e[0] == "state" and e[5]}
        completed, aborted = set(scen.get("initial_completed", [])), set(scen.get("initial_aborted", []))
        for i, run in enumerate(runs):
            if i >= len(snaps):
                break
            st = snaps[i]
            jobs = {x[0] for x in (st["jobs"] or [])}
            bak = {x[0] for x in (st["jobs.bak"] or [])}
            S = {ids[x] for x in run["jobs"] if x in ids}
            orph = st.get("orphans", {})
            if "error" in orph:
                V("orphans-command-raises", f"run {i} of {tag}: {orph['error']}")
                orph = {"listed": []}
            if run.get("mode"):
                # a DRY_RUN / GENERATE_ONLY run that ended normally: the index is what the earlier runs left
                if not completed <= (jobs | bak):
                    V("completed-plan-lost", f"run {i} ({run}); last completed plan {sorted(completed)} not within jobs {sorted(jobs)} + jobs.bak {sorted(bak)}")
                if i > 0 and i - 1 < len(snaps):
                    prev = snaps[i - 1]
                    if (prev["jobs"], prev["jobs.bak"]) != (st["jobs"], st["jobs.bak"]):
                        V("index-changed-by-dry-run", f"run {i} ({run}) changed the index: jobs {prev['jobs']} -> {st['jobs']}, jobs.bak {prev['jobs.bak']} -> {st['jobs.bak']}")
            elif run["end"] == "ok":
                if jobs != S:
                    V("index-differs-from-plan", f"run {i} ({run}) ended normally; index lists {sorted(jobs)}, submitted {sorted(S)}")
                bad = [x for x in (st["jobs"] or []) if not (x[1] and x[2])]
                if bad:
                    V("index-link-wrong", f"run {i}: links {bad} do not resolve to their job directory")
                if st["jobs.bak"] is not None:
                    V("backup-left", f"run {i} ended normally but jobs.bak remains: {sorted(bak)}")
                completed, aborted = set(S), set()
            else:
                aborted |= S
                if not completed <= (jobs | bak):
                    V("completed-plan-lost", f"run {i} ({run}) aborted; last completed plan {sorted(completed)} not within jobs {sorted(jobs)} + jobs.bak {sorted(bak)}")
            listed = set(orph.get("listed", []))
            if listed & (completed | aborted):
                V("reported-as-orphan", f"after run {i} ({run}) `orphans` lists {sorted(listed & (completed | aborted))} (completed plan {sorted(completed)}, aborted runs {sorted(aborted)})")
    return out
