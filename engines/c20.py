"""C20 — deprecating a class keeps identifiers and makes old results reachable (Engines G + F).

(a) every description with a deprecated class at any position has the identifier of the description with the
    replacement class;
(b) explicit-state BFS over workspaces holding jobs recorded under former identifiers; transitions are the real
    `deprecated list [--fix [--cleanup]]` commands; in every state job data must be preserved, after any --fix the old
    results must be reachable under the new identifier and a re-submission must find them.
"""
from __future__ import annotations

import copy
import hashlib
import json
import os
import shutil
import tempfile
from pathlib import Path

from .c01 import ROOTS, SEEDS, hash_seeds
from .common import Result, clip_samples
from .genspace import enumerate_with_seeds
from .pool import Pool

PROPERTY = "C20"
LEVEL = "exploration"
OLD_OF = {"leaf": "leaf_old", "box": "box_old", "job": "job_old", "pre": "pre_old", "jobout": "jobout_old"}


# ---------------------------------------------------------------------------------------------- (a)
def eval_deprecated_ids(item):
    from . import gwork
    from .genspace import is_task
    G = item["G"]
    out = {"n": 0, "bad": [], "sig": gwork.sig_digest(G)}
    try:
        base = gwork._ids_of(G)
    except Exception as e:  # noqa
        out["bad"].append({"kind": "base-raises", "error": f"{type(e).__name__}: {e}"})
        return out
    variants = []
    for l, n in G["nodes"].items():
        if "output_of" not in n and n["cls"] in OLD_OF:
            H = copy.deepcopy(G)
            H["nodes"][l]["cls"] = OLD_OF[n["cls"]]
            variants.append((f"{n['cls']}@{position(G, l)}", H))
    H = copy.deepcopy(G)
    for l, n in H["nodes"].items():
        if "output_of" not in n and n["cls"] in OLD_OF:
            n["cls"] = OLD_OF[n["cls"]]
    variants.append(("all", H))
    for what, H in variants:
        out["n"] += 1
        try:
            ids = gwork._ids_of(H)
        except Exception as e:  # noqa
            out["bad"].append({"kind": "raises", "what": what, "H": H, "error": f"{type(e).__name__}: {e}"[:300]})
            continue
        diff = [l for l in base if ids.get(l) != base[l]]
        if diff:
            out["bad"].append({"kind": "identifier-differs", "what": what, "H": H, "nodes": diff, "before": base[G["root"]][:16], "after": ids[G["root"]][:16]})
    return out


def position(G, label):
    from .c15 import where_of
    if label == G["root"]:
        return "root"
    return where_of(G, label)


# ---------------------------------------------------------------------------------------------- (b)
PAIRS = {"moved": ("OldMoved", "NewMoved"), "renamed": ("OldT", "NewT")}


def tree_state(ws: Path):
    """Canonical content of <ws>/jobs: entries (type, id) -> dir with its files | link target."""
    out = {}
    jobs = ws / "jobs"
    if not jobs.is_dir():
        return out
    for t in sorted(jobs.iterdir()):
        if not t.is_dir():
            continue
        for j in sorted(t.iterdir()):
            key = f"{t.name}/{j.name[:8]}"
            if j.is_symlink():
                target = os.readlink(j)
                try:
                    rel = str(Path(target).relative_to(jobs))
                    rel = rel.split("/")[0] + "/" + rel.split("/")[1][:8]
                except ValueError:
                    rel = target
                out[key] = {"link": rel, "resolves": j.exists()}
            elif j.is_dir():
                files = sorted(f.name for f in j.iterdir() if not f.name.startswith("."))
                out[key] = {"files": files}
    return out


def run_xp(ws: Path, pair, xs, use_new, codes=None):
    """Runs an experiment in the virtual world on workspace ws submitting Old*/New*(x) for x in xs; returns events."""
    from . import vworld as V, vxpm as X
    import universe.dep as D
    X.install()
    old_name, new_name = PAIRS[pair]
    cls = getattr(D, new_name if use_new else old_name)
    rec = {}

    def script(wd, result, proc):
        from experimaestro import experiment
        from experimaestro.scheduler.base import FailedExperiment
        try:
            with experiment(ws, "xp_new" if use_new else "xp_old", launcher=X.make_launcher(ws)) as xp:
                for x in xs:
                    t = cls(x=x, code=(codes or {}).get(x, 0))
                    t.submit()
                    rec[x] = str(t.__xpm__.job.relpath)
        except FailedExperiment:
            rec["failed"] = True

    # the virtual world treats files below its own scratch root; make the workspace that root
    r, hub, world = V.run_world([script], root_override=ws)
    return r, rec


def cli(args):
    from click.testing import CliRunner
    from experimaestro.__main__ import cli as xcli
    res = CliRunner().invoke(xcli, args)
    err = None
    if res.exception is not None and not isinstance(res.exception, SystemExit):
        err = repr(res.exception)
    return res.output, err


def eval_repair(item):
    """BFS over workspace states for one scenario {pair, old jobs (x -> code), also_new: [x]}."""
    import universe.dep as D
    from . import vxpm as X
    X.install()
    pair, olds, also_new = item["pair"], item["old"], item.get("also_new", [])
    old_name, new_name = PAIRS[pair]
    old_cls = getattr(D, old_name)
    out = {"states": 0, "transitions": 0, "bad": [], "state_list": []}
    base = Path(tempfile.mkdtemp(prefix="c20", dir=os.environ.get("VERIF_SCRATCH", "/dev/shm")))
    try:
        # --- the workspace as the old program left it
        D.set_deprecated(old_cls, False)
        ws0 = base / "s0"
        ws0.mkdir()
        r, rec_old = run_xp(ws0, pair, sorted(int(k) for k in olds), use_new=False, codes={int(k): v for k, v in olds.items()})
        if r.get("hung") or r.get("main_exc"):
            out["bad"].append({"kind": "setup-failed", "detail": str(r.get("main_exc"))[:300]})
            return out
        if also_new:
            run_xp(ws0, pair, also_new, use_new=True)
        D.set_deprecated(old_cls, True)
        if item.get("relocated"):
            # the directory of the replacement type lives on another volume and is linked into jobs/ (a legal layout: directories
            # under jobs/ are only ever reached through their path)
            newtype = str(getattr(D, new_name).__getxpmtype__().identifier)
            vol = ws0 / "volume2"
            vol.mkdir()
            tdir = ws0 / "jobs" / newtype
            if tdir.is_dir():
                shutil.move(str(tdir), str(vol / newtype))
            else:
                (vol / newtype).mkdir()
            tdir.symlink_to(vol / newtype)
        # ground truth: original data of every former job
        original = {}
        for x, rel in rec_old.items():
            if x == "failed":
                continue
            p = ws0 / "jobs" / rel
            original[x] = {"rel": rel, "files": sorted(f.name for f in p.iterdir() if not f.name.startswith(".")) if p.is_dir() else []}
        seen = {}
        frontier = [ws0]
        k0 = json.dumps(tree_state(ws0), sort_keys=True)
        seen[k0] = ws0
        n = 0
        while frontier:
            nxt = []
            for ws in frontier:
                for cmd in (["list"], ["list", "--fix"], ["list", "--fix", "--cleanup"]):
                    n += 1
                    dst = base / f"s{n}"
                    shutil.copytree(ws, dst, symlinks=True)
                    relink(dst, ws)
                    output, err = cli(["deprecated"] + cmd[:1] + cmd[1:] + [str(dst)])
                    out["transitions"] += 1
                    st = tree_state(dst)
                    label = " ".join(cmd)
                    if err:
                        out["bad"].append({"kind": "command-raises", "cmd": label, "error": err[:300], "state": tree_state(ws)})
                    check_state(out, pair, dst, st, original, label, fixed="--fix" in cmd, also_new=also_new)
                    key = json.dumps(st, sort_keys=True)
                    if key not in seen:
                        seen[key] = dst
                        nxt.append(dst)
                    else:
                        shutil.rmtree(dst, ignore_errors=True)
            frontier = nxt
        out["states"] = len(seen)
        out["state_list"] = [json.loads(k) for k in list(seen)[:6]]
    finally:
        D.set_deprecated(old_cls, True)
        shutil.rmtree(base, ignore_errors=True)
    return out


def relink(dst: Path, src: Path):
    """copytree keeps absolute symlink targets pointing into the source workspace: re-point them into the copy."""
    for p in list(dst.rglob("*")):
        if p.is_symlink():
            t = os.readlink(p)
            if t.startswith(str(src) + "/"):
                p.unlink()
                p.symlink_to(str(dst) + t[len(str(src)):])


def check_state(out, pair, ws, st, original, label, fixed, also_new):
    import universe.dep as D
    old_name, new_name = PAIRS[pair]
    new_cls = getattr(D, new_name)
    jobs = ws / "jobs"
    # never deletes job data: every original job's files are in exactly one real directory
    real_dirs = {k: v for k, v in st.items() if "files" in v}
    for x, o in original.items():
        data = [f for f in o["files"] if not f.endswith((".json", ".tmp"))]
        holders = [k for k, v in real_dirs.items() if set(data) <= set(v["files"]) and k.split("/")[1] == o["rel"].split("/")[1][:8]]
        newid = new_identifier(new_cls, x)
        holders += [k for k, v in real_dirs.items() if set(data) <= set(v["files"]) and k.split("/")[1] == newid[:8] and k not in holders]
        if not holders and o["files"]:
            out["bad"].append({"kind": "job-data-lost", "cmd": label, "job": x, "original": o, "state": st})
    if fixed:
        for x, o in original.items():
            if not o["files"]:
                continue
            newid = new_identifier(new_cls, x)
            newtype = str(new_cls.__getxpmtype__().identifier)
            p = jobs / newtype / newid
            if not p.exists() or not p.is_dir():
                out["bad"].append({"kind": "old-result-not-reachable", "cmd": label, "job": x, "expected": f"{newtype}/{newid[:8]}", "state": st})
                continue
            have = {f.name for f in p.iterdir()}
            data = [f for f in o["files"] if not f.endswith((".json", ".tmp"))]
            if not set(data) <= have and x not in also_new:
                out["bad"].append({"kind": "old-result-files-missing", "cmd": label, "job": x, "missing": sorted(set(data) - have)})
        # re-submission of the replacement finds the existing results: nothing is launched
        xs = sorted(x for x, o in original.items() if any(f.endswith(".done") for f in o["files"]))
        if xs:
            tmp = ws.parent / (ws.name + "_resubmit")
            shutil.copytree(ws, tmp, symlinks=True)
            relink(tmp, ws)
            try:
                r, rec = run_xp(tmp, pair, xs, use_new=True)
                launched = sorted({e[1] for e in r["events"] if e[0] == "launch"})
                if launched:
                    out["bad"].append({"kind": f"relaunched-after-fix:{pair}", "cmd": label, "launched": launched, "state": st})
                if r.get("hung") or r.get("main_exc"):
                    out["bad"].append({"kind": "resubmission-fails", "cmd": label, "detail": str(r.get("main_exc") or r.get("hung"))[:300]})
            finally:
                shutil.rmtree(tmp, ignore_errors=True)


_NEWID = {}


def new_identifier(new_cls, x):
    k = (new_cls.__name__, x)
    if k not in _NEWID:
        _NEWID[k] = new_cls(x=x).__xpm__.identifier.all.hex()
    return _NEWID[k]


REPAIR_SCENARIOS = [
    {"pair": "moved", "old": {"1": 0}},
    {"pair": "moved", "old": {"1": 0, "2": 0}},
    {"pair": "moved", "old": {"1": 0, "2": 3}},
    {"pair": "moved", "old": {"1": 0}, "also_new": [1]},
    {"pair": "moved", "old": {"1": 0, "2": 0}, "also_new": [2]},
    {"pair": "renamed", "old": {"1": 0}},
    {"pair": "renamed", "old": {"1": 0, "2": 3}},
    {"pair": "moved", "old": {"1": 0}, "relocated": True},
    {"pair": "moved", "old": {"1": 0, "2": 0}, "also_new": [2], "relocated": True},
]


def run(ctx):
    res = Result(ctx, LEVEL)
    if ctx.quick:
        descs, hist, capped = enumerate_with_seeds(ROOTS + ["pre"], SEEDS, N=4, k=2, kseed=1, allow=("struct", "pre"))
    else:
        descs, hist, capped = enumerate_with_seeds(ROOTS + ["pre"], SEEDS, N=5, k=3, kseed=2, allow=("struct", "pre"))
    with Pool(seeds=hash_seeds(ctx), init="engines.gwork:init", recycle=6000) as pool:
        outs = pool.map("engines.c20:eval_deprecated_ids", [{"G": d} for d in descs])
    with Pool(seeds=[0], init="engines.explore:worker_init") as pool:
        routs = pool.map("engines.c20:eval_repair", REPAIR_SCENARIOS)
        touts = pool.map("engines.c20:eval_repair_twostep", [{"order": "AB"}, {"order": "BA"}])
        touts += pool.map("engines.c20:eval_repair_output", [{}])
    n, sigs = 0, set()
    for d, o in zip(descs, outs):
        n += o["n"]
        sigs.add(o["sig"])
        for b in o["bad"]:
            res.violation(f"{b['kind']}:{b.get('what', '').split('@')[0]}", f"deprecated class at {b.get('what')}: {b} (base {json.dumps(d)[:400]})", {"part": "ids", "G": d, "bad": b})
    states = trans = 0
    for sc, o in zip(REPAIR_SCENARIOS, routs):
        states += o["states"]
        trans += o["transitions"]
        for b in o["bad"]:
            res.violation(f"{b['kind']}", f"scenario {sc}: after `deprecated {b.get('cmd')}`: {json.dumps(b, default=str)[:900]}", {"part": "repair", "scenario": sc, "bad": b})
    for sc2, o in zip(("AB", "BA", "through-output"), touts):
        states += o["states"]
        trans += o["transitions"]
        for b in o["bad"]:
            res.violation(f"{b['kind']}", f"two-step deprecation ({sc2}): after `{b.get('cmd')}`: {json.dumps(b, default=str)[:900]}", {"part": "twostep", "order": sc2, "bad": b})
    res.coverage = {
        "evaluations": n + trans,
        "distinct_nontrivial": len(sigs) + states,
        "rule": "(a) every description within (N,k) with each node of a class that has a deprecated twin replaced by the twin (each node alone, and all "
                "together: root, nested, list element, dict value, task, task output producer, pre-task): identifiers of all nodes must equal those of "
                "the description with the replacement classes; (b) explicit-state BFS over workspaces written by the real scheduler (virtual world) "
                "with the class not yet deprecated, transitions = real `deprecated list`, `--fix`, `--fix --cleanup` commands (click CliRunner) until no "
                "new canonical jobs/ tree appears; on every state: job data preserved; after --fix: jobs/<new type>/<new id> resolves to the old files and "
                "re-submitting the replacement in a virtual experiment launches nothing; also a two-step deprecation (two classes, repairs in between, both orders) and a job that depends on the deprecated class only through the output of an upstream task; distinct_nontrivial = signatures + workspace states",
        "samples": clip_samples([descs[3], REPAIR_SCENARIOS[1], (routs[1].get("state_list") or [None])[-1]]),
        "exhaustive": not capped, "descriptions": len(descs), "repair_states": states, "repair_transitions": trans,
    }
    res.assumptions = ["two deprecated pairs: a class moved between type-identifier namespaces (same last component) and a renamed class"]
    return res


def replay(ctx, payload):
    if payload["part"] == "ids":
        from . import gwork
        gwork.init()
        print(eval_deprecated_ids({"G": payload["G"]}))
    elif payload["part"] == "twostep":
        from . import explore
        explore.worker_init()
        print(json.dumps(eval_repair_twostep({"order": payload["order"]}), default=str)[:6000])
    else:
        from . import explore
        explore.worker_init()
        print(json.dumps(eval_repair(payload["scenario"]), default=str)[:6000])
    return 0


# ---------------------------------------------------------------------------------------------- (b') identifiers that change twice
def eval_repair_twostep(item):
    """A stored job Learn2(a=OldA, b=OldB): OldA and OldB get deprecated one after the other, with repairs in between in
    every order.  State = (jobs tree, set of deprecated classes); transitions = the three CLI commands + "deprecate the
    next class" (a change of the program)."""
    import universe.dep as D
    from . import vworld as V, vxpm as X
    X.install()
    out = {"states": 0, "transitions": 0, "bad": []}
    base = Path(tempfile.mkdtemp(prefix="c20t", dir=os.environ.get("VERIF_SCRATCH", "/dev/shm")))
    classes = [D.OldA, D.OldB] if item.get("order", "AB") == "AB" else [D.OldB, D.OldA]

    def build(x):
        return D.Learn2(x=x, a=D.OldA(v=1), b=D.OldB(v=2))

    def run(ws, xs, name):
        rec = {}

        def script(wd, result, proc):
            from experimaestro import experiment
            with experiment(ws, name, launcher=X.make_launcher(ws)) as xp:
                for x in xs:
                    t = build(x)
                    t.submit()
                    rec[x] = str(t.__xpm__.job.relpath)
        r, hub, world = V.run_world([script], root_override=ws)
        return r, rec

    try:
        for c in classes:
            D.set_deprecated(c, False)
        ws0 = base / "s0"
        ws0.mkdir()
        r, rec0 = run(ws0, [1], "xp_old")
        if r.get("hung") or r.get("main_exc"):
            out["bad"].append({"kind": "setup-failed", "detail": str(r.get("main_exc"))[:300]})
            return out
        orig_rel = rec0[1]
        orig_files = sorted(f.name for f in (ws0 / "jobs" / orig_rel).iterdir() if not f.name.startswith("."))
        seen = {}
        frontier = [(ws0, 0)]          # (workspace dir, number of classes deprecated so far)
        seen[(json.dumps(tree_state(ws0), sort_keys=True), 0)] = True
        n = 0
        while frontier:
            nxt = []
            for ws, nd in frontier:
                moves = [["list"], ["list", "--fix"], ["list", "--fix", "--cleanup"]] + ([["DEPRECATE"]] if nd < len(classes) else [])
                for cmd in moves:
                    n += 1
                    dst = base / f"s{n}"
                    shutil.copytree(ws, dst, symlinks=True)
                    relink(dst, ws)
                    nd2 = nd
                    for i, c in enumerate(classes):
                        D.set_deprecated(c, i < (nd + 1 if cmd == ["DEPRECATE"] else nd))
                    if cmd == ["DEPRECATE"]:
                        nd2 = nd + 1
                        err = None
                    else:
                        output, err = cli(["deprecated"] + cmd + [str(dst)])
                    out["transitions"] += 1
                    st = tree_state(dst)
                    label = " ".join(cmd) + f" (deprecated so far: {nd2})"
                    if err:
                        out["bad"].append({"kind": "command-raises", "cmd": label, "error": err[:300]})
                    # job data preserved
                    data = [f for f in orig_files if not f.endswith((".json", ".tmp"))]
                    holders = [k for k, v in st.items() if "files" in v and set(data) <= set(v["files"])]
                    if not holders:
                        out["bad"].append({"kind": "job-data-lost", "cmd": label, "state": st})
                    if "--fix" in cmd and nd2 > 0:
                        cur = build(1)
                        cur_id = cur.__xpm__.identifier.all.hex()
                        p = dst / "jobs" / "dep.learn" / cur_id
                        if not (p.exists() and p.is_dir() and set(data) <= {f.name for f in p.iterdir()}):
                            out["bad"].append({"kind": "old-result-not-reachable:second-deprecation" if nd2 > 1 else "old-result-not-reachable",
                                               "cmd": label, "expected": cur_id[:8], "state": st})
                        else:
                            tmp = base / f"s{n}_re"
                            shutil.copytree(dst, tmp, symlinks=True)
                            relink(tmp, dst)
                            r2, _ = run(tmp, [1], "xp_new")
                            if any(e[0] == "launch" for e in r2["events"]):
                                out["bad"].append({"kind": "relaunched-after-fix:twostep", "cmd": label, "state": st})
                            shutil.rmtree(tmp, ignore_errors=True)
                    key = (json.dumps(st, sort_keys=True), nd2)
                    if key not in seen:
                        seen[key] = True
                        nxt.append((dst, nd2))
                    else:
                        shutil.rmtree(dst, ignore_errors=True)
            frontier = nxt
        out["states"] = len(seen)
    finally:
        for c in classes:
            D.set_deprecated(c, True)
        shutil.rmtree(base, ignore_errors=True)
    return out


def eval_repair_output(item):
    """Two stored jobs, Prep(p=OldA) and Use(data=<output of Prep>): the identifier of Use changes with the deprecation of OldA although
    Use itself holds no deprecated configuration (the hash follows the task of a task output).  BFS over the workspace states reached by
    the three CLI commands once OldA is deprecated; after a --fix every stored job must be reachable under its new identifier and a
    re-submission of the plan must launch nothing."""
    import universe.dep as D
    from . import vworld as V, vxpm as X
    X.install()
    out = {"states": 0, "transitions": 0, "bad": []}
    base = Path(tempfile.mkdtemp(prefix="c20o", dir=os.environ.get("VERIF_SCRATCH", "/dev/shm")))

    def plan():
        prep = D.Prep(x=1, p=D.OldA(v=1))
        return prep, (lambda o: D.Use(x=2, data=o))

    def run(ws, name):
        rec = {}

        def script(wd, result, proc):
            from experimaestro import experiment
            with experiment(ws, name, launcher=X.make_launcher(ws)) as xp:
                prep, mk = plan()
                o = prep.submit()
                use = mk(o)
                use.submit()
                rec["prep"] = str(prep.__xpm__.job.relpath)
                rec["use"] = str(use.__xpm__.job.relpath)
        r, hub, world = V.run_world([script], root_override=ws)
        return r, rec

    def current_ids():
        """identifiers the current program gives to the two jobs (DRY_RUN-like: computed without an experiment)"""
        from experimaestro.scheduler.workspace import RunMode
        prep, mk = plan()
        with Gr_quiet():
            o = prep.submit(run_mode=RunMode.DRY_RUN)
            use = mk(o)
            use.submit(run_mode=RunMode.DRY_RUN)
        return {"prep": ("dep.prep", prep.__xpm__.identifier.all.hex()), "use": ("dep.use", use.__xpm__.identifier.all.hex())}

    try:
        D.set_deprecated(D.OldA, False)
        ws0 = base / "s0"
        ws0.mkdir()
        r, rec0 = run(ws0, "xp_old")
        if r.get("hung") or r.get("main_exc") or "use" not in rec0:
            out["bad"].append({"kind": "setup-failed", "detail": str(r.get("main_exc"))[:300]})
            return out
        orig = {k: sorted(f.name for f in (ws0 / "jobs" / rel).iterdir() if not f.name.startswith(".")) for k, rel in rec0.items()}
        D.set_deprecated(D.OldA, True)
        ids = current_ids()
        if item.get("sanity", True) and ids["use"][1] == rec0["use"].split("/")[-1]:
            out["bad"].append({"kind": "setup-vacuous", "detail": "the identifier of the dependent job does not change with the deprecation"})
        seen = {json.dumps(tree_state(ws0), sort_keys=True): True}
        frontier = [ws0]
        n = 0
        while frontier:
            nxt = []
            for ws in frontier:
                for cmd in (["list"], ["list", "--fix"], ["list", "--fix", "--cleanup"]):
                    n += 1
                    dst = base / f"s{n}"
                    shutil.copytree(ws, dst, symlinks=True)
                    relink(dst, ws)
                    output, err = cli(["deprecated"] + cmd + [str(dst)])
                    out["transitions"] += 1
                    st = tree_state(dst)
                    label = " ".join(cmd)
                    if err:
                        out["bad"].append({"kind": "command-raises", "cmd": label, "error": err[:300]})
                    for which, files in orig.items():
                        data = [f for f in files if not f.endswith((".json", ".tmp"))]
                        if not [k for k, v in st.items() if "files" in v and set(data) <= set(v["files"]) and k.startswith(ids[which][0] + "/")]:
                            out["bad"].append({"kind": f"job-data-lost:{which}", "cmd": label, "state": st})
                    if "--fix" in cmd:
                        ok = True
                        for which, (tname, ident) in ids.items():
                            data = [f for f in orig[which] if not f.endswith((".json", ".tmp"))]
                            p = dst / "jobs" / tname / ident
                            if not (p.exists() and p.is_dir() and set(data) <= {f.name for f in p.iterdir()}):
                                ok = False
                                out["bad"].append({"kind": f"old-result-not-reachable:through-output:{which}", "cmd": label, "expected": f"{tname}/{ident[:8]}", "state": st})
                        if ok:
                            tmp = base / f"s{n}_re"
                            shutil.copytree(dst, tmp, symlinks=True)
                            relink(tmp, dst)
                            r2, _ = run(tmp, "xp_new")
                            launched = sorted({e[1] for e in r2["events"] if e[0] == "launch"})
                            if launched:
                                out["bad"].append({"kind": "relaunched-after-fix:through-output", "cmd": label, "launched": launched, "state": st})
                            shutil.rmtree(tmp, ignore_errors=True)
                    key = json.dumps(st, sort_keys=True)
                    if key not in seen:
                        seen[key] = True
                        nxt.append(dst)
                    else:
                        shutil.rmtree(dst, ignore_errors=True)
            frontier = nxt
        out["states"] = len(seen)
    finally:
        D.set_deprecated(D.OldA, True)
        shutil.rmtree(base, ignore_errors=True)
    return out


def Gr_quiet():
    from . import graphs as Gr
    return Gr.quiet()
