"""Engine W, part 3: scenario specifications (user scripts as data), their interpreter and the oracles.

A scenario is JSON:
  {"procs": [[op, ...], ...],        one user script per simulated scheduler process
   "restart": [op, ...]?             script started in a fresh process after a kill (C11)
   "pre_done": [x, ...]?             jobs whose success marker already exists (made by a preliminary run)
   "fine": bool}
ops:
  {"op":"xp","name":..,"body":[ops],"catch":bool}     with experiment(...): body   (FailedExperiment is always recorded)
  {"op":"token","var":"t","name":"tok","cap":2,"kind":"file"|"process"}
  {"op":"job","var":"a","x":1,"code":0,"cls":"job"|"jobout","deps":[["b","up"],...],"tok":[["t",1]]}
  {"op":"wait","var":"a"}  {"op":"waitxp"}  {"op":"raise"}  {"op":"state","var":"a"}
dependency embeddings (C04): up (direct parameter), ups (list element), upd (dict value), holder (field of a nested
config), holder2 (two levels), mt (Meta parameter of a nested config), oin (task-output config; upstream must be a
jobout), holder-o (task output inside a nested config), pre (parameter of a pre-task), init (parameter of an init
task), explicit (add_dependencies).
"""
from __future__ import annotations

import json

from . import vworld as V
from . import vxpm as X


class Boom(Exception):
    pass


def make_script(ops, scen, tag):
    def script(wd, result, proc):
        env = {"vars": {}, "jobs": {}, "jobxp": {}, "tokens": {}, "xps": [], "result": result, "tag": tag, "proc": proc, "wd": wd}
        result.setdefault("scripts", {})[tag] = rec = {"jobs": {}, "xps": [], "dups": [], "waits": {}, "tokens": {}, "raised": None}
        env["rec"] = rec
        try:
            run_ops(ops, env)
        except Boom:
            rec["raised"] = "Boom"
        finally:
            snapshot(env)
    return script


def snapshot(env):
    rec = env["rec"]
    for var, cfg in env["jobs"].items():
        job = cfg.__xpm__.job
        fut = getattr(job, "_future", None)
        rec["jobs"][var] = {
            "x": cfg.__xpm__.values.get("x"),
            "state": job.state.name if job.state else None,
            "failure": job.failure_status.name if job.failure_status else None,
            "future": (fut.result(0).name if (fut is not None and fut.done() and fut.exception() is None) else
                       ("EXC" if (fut is not None and fut.done()) else ("PENDING" if fut is not None else None))),
            "id": job.identifier[:8],
            "index": V.W.jobs.index(job) if job in V.W.jobs else None,
            "xp": env["jobxp"].get(var),
            "xpi": env.get("jobxpi", {}).get(var),
            "dup": var in env.get("dupvars", ()),
        }
    for var, tok in env["tokens"].items():
        files = sorted(p.name[:8] for p in tok.path.glob("*.token")) if hasattr(tok, "path") else []
        rec["tokens"][var] = {"available": tok.available, "total": getattr(tok, "total", getattr(tok, "count", None)), "files": files}


def run_ops(ops, env):
    import universe.g as U
    from experimaestro import experiment
    from experimaestro.scheduler.base import FailedExperiment
    for op in ops:
        k = op["op"]
        if k == "xp":
            xrec = {"name": op["name"], "failed": False, "unfinished": None, "exc": None, "registry": None, "index": len(env["rec"]["xps"])}
            env["rec"]["xps"].append(xrec)
            xp = None
            try:
                kwx = {}
                if op.get("mode"):
                    from experimaestro.scheduler.workspace import RunMode
                    kwx["run_mode"] = getattr(RunMode, op["mode"])
                with experiment(env["wd"], op["name"], launcher=X.make_launcher(env["wd"]), **kwx) as xp:
                    V.W.events.append(("xp_enter", op["name"], env["proc"].pid))
                    env["xps"].append(xp)
                    env.setdefault("xrecs", []).append(xrec)
                    try:
                        run_ops(op["body"], env)
                    finally:
                        V.W.events.append(("xp_body_end", op["name"], env["proc"].pid))
                        env["xps"].pop()
                        env["xrecs"].pop()
                V.W.events.append(("xp_exit", op["name"], env["proc"].pid))
            except FailedExperiment:
                xrec["failed"] = True
                V.W.events.append(("xp_exit", op["name"], env["proc"].pid))
            except Boom:
                xrec["exc"] = "Boom"
                V.W.events.append(("xp_exit", op["name"], env["proc"].pid))
            finally:
                if xp is not None:
                    xrec["unfinished"] = X._count(getattr(xp, "unfinishedJobs", None))
                    xrec["registry"] = len(xp.scheduler.jobs)
        elif k == "token":
            xp = env["xps"][-1]
            if op.get("kind", "file") == "file":
                tok = xp.token(op["name"], op["cap"])
            else:
                from experimaestro.tokens import ProcessCounterToken
                tok = ProcessCounterToken(op["cap"])
            env["tokens"][op["var"]] = tok
        elif k == "job":
            cfg = build_job(op, env)
            env["jobs"][op["var"]] = cfg
            env["jobxp"][op["var"]] = env["rec"]["xps"][-1]["name"] if env["rec"]["xps"] else None
            env.setdefault("jobxpi", {})[op["var"]] = env["xrecs"][-1]["index"] if env.get("xrecs") else None
            kw = {}
            if "_init" in op:
                kw["init_tasks"] = op["_init"]
            out = cfg.submit(**kw)
            env["vars"][op["var"]] = out
            if op.get("dup_of"):
                if not op.get("after_fail"):
                    env.setdefault("dupvars", set()).add(op["var"])
                first = env["vars"][op["dup_of"]]
                env["rec"]["dups"].append({"var": op["var"], "of": op["dup_of"], "same_output": out is first,
                                           "same_job": cfg.__xpm__.job is env["jobs"][op["dup_of"]].__xpm__.job,
                                           "after_fail": bool(op.get("after_fail"))})
        elif k == "rmjob":
            # the user removes the directory of a job between two experiments (e.g. to have it run again)
            jp = env["jobs"][op["var"]].__xpm__.job.path
            for f in sorted(jp.rglob("*"), reverse=True):
                if f.is_dir() and not f.is_symlink():
                    f.rmdir()
                else:
                    f.unlink()
            jp.rmdir()
            cfg = env["jobs"][op["var"]]
            V.W.events.append(("rmjob", op["var"], f"j{cfg.__xpm__.values.get('x', 0)}", cfg.__xpm__.job.identifier[:8]))
        elif k == "await_state":
            # the user script polls the state of a job (job.state) instead of waiting for it
            job = env["jobs"][op["var"]].__xpm__.job
            V.HUB.block_on(lambda: job.state is not None and job.state.name == op["state"])
        elif k == "wait":
            st = env["jobs"][op["var"]].__xpm__.job.wait()
            env["rec"]["waits"][op["var"]] = st.name
            V.W.events.append(("waited", op["var"], st.name))
        elif k == "waitxp":
            try:
                env["xps"][-1].wait()
                env["rec"].setdefault("waitxp", []).append("ok")
            except FailedExperiment:
                env["rec"].setdefault("waitxp", []).append("failed")
            V.W.events.append(("waitxp",))
        elif k == "thread":
            # a second user thread of the same process (e.g. a callback of the task-outputs worker) running its own ops
            def body(ops=op["body"], env=env):
                try:
                    run_ops(ops, env)
                except Exception as e:  # noqa
                    env["rec"].setdefault("thread_exc", []).append(f"{type(e).__name__}: {e}"[:200])
            actor = V.HUB.spawn(f"thread:user:{op['var']}", body, kind="thread")
            env.setdefault("threads", {})[op["var"]] = actor
        elif k == "join":
            a = env["threads"][op["var"]]
            V.HUB.block_on(lambda: a.dead)
        elif k == "same":
            # two submissions of identical configurations (possibly from two threads): both must have got one output
            oa, ob = env["vars"].get(op["a"], "<none>"), env["vars"].get(op["b"], "<none>")
            env["rec"]["dups"].append({"var": op["b"], "of": op["a"], "same_output": oa is ob and oa is not None, "same_job": True,
                                       "after_fail": False, "outputs": [type(oa).__name__, type(ob).__name__]})
        elif k == "raise":
            raise Boom()
        elif k == "index":
            env["rec"].setdefault("index", []).append(index_state(env["wd"], op["name"]))
        else:
            raise KeyError(k)


def index_state(wd, xpname, with_orphans=True):
    """Content of xp/<name>/jobs and jobs.bak as job names, plus what the real `orphans` command lists."""
    import json as _json
    from pathlib import Path
    out = {}
    base = Path(wd) / "xp" / xpname
    for sub in ("jobs", "jobs.bak"):
        d = base / sub
        if not d.is_dir():
            out[sub] = None
            continue
        items = []
        for p in sorted(d.glob("*/*")):
            target_ok = p.is_symlink() and p.resolve() == (Path(wd) / "jobs" / p.parent.name / p.name).resolve()
            items.append([p.name[:8], bool(target_ok), p.exists()])
        out[sub] = items
    if with_orphans:
        out["orphans"] = run_orphans(wd)
    return out


def run_orphans(wd, clean=False):
    """The real `experimaestro orphans` command (click CliRunner, in-process)."""
    import re
    from click.testing import CliRunner
    from experimaestro.__main__ import cli
    args = ["orphans", str(wd)] + (["--clean"] if clean else [])
    res = CliRunner().invoke(cli, args)
    if res.exception is not None and not isinstance(res.exception, SystemExit):
        return {"error": repr(res.exception)}
    listed = [l.strip().split("/")[-1][:8] for l in res.output.splitlines() if re.search(r"/[0-9a-f]{64}$", l.strip())]
    return {"listed": sorted(listed), "exit": res.exit_code}


def build_job(op, env):
    import universe.g as U
    cls = {"jobout": U.JobOut, "jobx": U.JobX, "jobmark": U.JobMark}.get(op.get("cls"), U.Job)
    kw = {"x": op["x"], "code": op.get("code", 0)}
    # configuration objects shared by several submissions of one script: a leaf, and a box that holds it
    if "shared" not in env:
        leaf = U.Leaf(i=5)
        env["shared"] = {"leaf": leaf, "box": U.Box(child=leaf)}
    if op.get("cls") == "jobmark":
        # task_outputs marks the task's own parameter: dep(self.leafp)
        kw["leafp"] = env["shared"]["leaf"]
    if op.get("shared") == "cfg":
        # the shared box used as a parameter (no dependency as long as nothing below it has been marked)
        kw["cfg"] = env["shared"]["box"]
    pre, init, explicit = [], [], []
    for dep, via in op.get("deps", []):
        up = env["vars"][dep]
        if via.endswith("-task"):
            # the task object itself (not the output returned by its submission) of a task that defines task_outputs
            up, via = env["jobs"][dep], via[:-5]
        if via == "cfg-shared":
            # the upstream (a jobmark, submitted earlier) has marked the shared leaf: the box that holds it now carries the dependency
            kw["cfg"] = env["shared"]["box"]
        elif via == "up":
            kw["up"] = up
        elif via == "ups":
            kw.setdefault("ups", []).append(up)
        elif via == "upd":
            kw.setdefault("upd", {})[f"k{len(kw.get('upd', {}))}"] = up
        elif via == "holder":
            kw["h"] = U.Holder(t=up)
        elif via == "holder2":
            kw["h"] = U.Holder(inner=U.Holder(lt=[up]))
        elif via == "mt":
            kw["h"] = U.Holder(mt=up)
        elif via == "oin":
            kw["oin"] = up
        elif via == "holder-o":
            kw["h"] = U.Holder(inner=U.Holder(o=up))
        elif via == "pre":
            pre.append(U.PreT(k=1, h=U.Holder(t=up)))
        elif via == "pre-o":
            pre.append(U.PreT(k=1, h=U.Holder(o=up)))
        elif via == "init":
            init.append(U.InitT(k=1, h=U.Holder(dt={"k": up})))
        elif via == "pre-on-oin":
            # a pre-task attached to the task-output configuration that is given as parameter `oin`
            kw["oin"].add_pretasks(U.PreT(k=2, h=U.Holder(t=up)))
        elif via == "pre-o-on-oin":
            kw["oin"].add_pretasks(U.PreT(k=2, h=U.Holder(o=up)))
        elif via == "explicit":
            explicit.append(env["jobs"][dep])
        else:
            raise KeyError(via)
    cfg = cls(**kw)
    if pre:
        cfg.add_pretasks(*pre)
    for e in explicit:
        cfg.add_dependencies(e.__xpm__.dependency())
    for tvar, n in op.get("tok", []):
        env["tokens"][tvar](n, cfg)
    if init:
        op["_init"] = init
    elif "_init" in op:
        del op["_init"]
    return cfg


# ---------------------------------------------------------------------------------------------- ground truth from the spec
def spec_jobs(scen):
    """x -> {"code", "deps": set of x (direct), "tok": [(tokvar, n)], "cls"} from all scripts (last definition wins for
    code: a re-submission may change the Meta parameter `code` without changing the identifier)."""
    jobs = {}

    def walk(ops, varmap):
        for op in ops:
            if op["op"] == "xp":
                walk(op["body"], varmap)
            elif op["op"] == "job":
                varmap[op["var"]] = op["x"]
                j = jobs.setdefault(op["x"], {"codes": [], "deps": set(), "tok": [], "cls": op.get("cls", "job")})
                j["codes"].append(op.get("code", 0))
                j["deps"].update(varmap[d] for d, _ in op.get("deps", []))
                j["tok"] = [tuple(t) for t in op.get("tok", [])]
    for ops in scen["procs"]:
        walk(ops, {})
    if scen.get("restart"):
        walk(scen["restart"], {})
    return jobs


def ancestors(jobs, x):
    out, stack = set(), list(jobs[x]["deps"])
    while stack:
        d = stack.pop()
        if d not in out:
            out.add(d)
            stack.extend(jobs[d]["deps"])
    return out


def token_caps(scen):
    caps = {}

    def walk(ops):
        for op in ops:
            if op["op"] == "xp":
                walk(op["body"])
            elif op["op"] == "token":
                caps[op["var"]] = (op["name"], op["cap"], op.get("kind", "file"))
    for ops in scen["procs"]:
        walk(ops)
    return caps
