"""Spawned worker pool: every worker is a fresh interpreter with its own PYTHONHASHSEED.

Work functions are named "module:function" and resolved in the worker.  Two ways to hand out work:
  * map(fn, items)            – shared queue, dynamic balancing (results returned in item order)
  * map_on(fn, items, which)  – item i runs on worker which[i] (used to evaluate one description under
                                two different string-hash seeds / processes)
Workers are recycled after `recycle` items (fresh process, fresh module state).
"""
from __future__ import annotations

import importlib
import multiprocessing as mp
import os
import sys
import traceback

from .common import NCPU, HarnessError, GUARD

_CTX = mp.get_context("spawn")


def _resolve(name):
    mod, fn = name.split(":")
    return getattr(importlib.import_module(mod), fn)


def _worker(idx, inq, outq, init, initargs):
    try:
        sys._called_from_test = True
        if init:
            _resolve(init)(*initargs)
        fns = {}
        while True:
            msg = inq.get()
            if msg is None:
                break
            i, fn, item = msg
            try:
                f = fns.get(fn) or fns.setdefault(fn, _resolve(fn))
                outq.put((i, True, f(item), idx))
            except BaseException as e:  # noqa
                outq.put((i, False, f"{type(e).__name__}: {e}\n{traceback.format_exc()}", idx))
    except BaseException as e:  # noqa
        outq.put((-1, False, f"worker {idx} crashed: {type(e).__name__}: {e}\n{traceback.format_exc()}", idx))


class Pool:
    def __init__(self, n=None, seeds=None, init=None, initargs=(), recycle=None):
        self.n = n or NCPU
        self.seeds = seeds or [0] * self.n
        self.init, self.initargs = init, initargs
        self.recycle = recycle
        self.outq = _CTX.Queue()
        self.procs, self.inqs, self.done_count = [], [], []
        for i in range(self.n):
            self.procs.append(None)
            self.inqs.append(None)
            self.done_count.append(0)
            self._start(i)

    def _start(self, i):
        old = dict(os.environ)
        os.environ["PYTHONHASHSEED"] = str(self.seeds[i % len(self.seeds)])
        os.environ[GUARD] = "1"
        os.environ["PYTHONPATH"] = os.pathsep.join(
            [str(__import__("pathlib").Path(__file__).resolve().parent.parent)] + ([old["PYTHONPATH"]] if old.get("PYTHONPATH") else []))
        try:
            inq = _CTX.Queue()
            p = _CTX.Process(target=_worker, args=(i, inq, self.outq, self.init, self.initargs), daemon=True)
            p.start()
        finally:
            os.environ.clear()
            os.environ.update(old)
        self.procs[i], self.inqs[i], self.done_count[i] = p, inq, 0

    def _restart(self, i):
        self.inqs[i].put(None)
        self.procs[i].join(timeout=30)
        if self.procs[i].is_alive():
            self.procs[i].kill()
        self._start(i)

    def map_on(self, fn, items, which):
        """items[i] is evaluated on worker which[i] % n; returns results in order."""
        n = len(items)
        results = [None] * n
        pending = [[] for _ in range(self.n)]
        for i in reversed(range(n)):
            pending[which[i] % self.n].append(i)
        inflight = [0] * self.n
        DEPTH = 4
        remaining = n

        def feed(w):
            while pending[w] and inflight[w] < DEPTH:
                if self.recycle and self.done_count[w] + inflight[w] >= self.recycle:
                    if inflight[w] == 0:
                        self._restart(w)
                    else:
                        return
                i = pending[w].pop()
                self.inqs[w].put((i, fn, items[i]))
                inflight[w] += 1

        for w in range(self.n):
            feed(w)
        while remaining:
            i, ok, val, w = self._get(600)
            if not ok:
                raise HarnessError(f"worker failure on item {i}: {val}")
            results[i] = val
            inflight[w] -= 1
            self.done_count[w] += 1
            remaining -= 1
            feed(w)
        return results

    def map(self, fn, items, chunk=1):
        """Dynamic balancing: each worker is refilled as it answers."""
        n = len(items)
        results = [None] * n
        nxt = 0
        inflight = [0] * self.n
        DEPTH = 3
        remaining = n

        def feed(w):
            nonlocal nxt
            while nxt < n and inflight[w] < DEPTH:
                if self.recycle and self.done_count[w] + inflight[w] >= self.recycle:
                    if inflight[w] == 0:
                        self._restart(w)
                    else:
                        return
                self.inqs[w].put((nxt, fn, items[nxt]))
                nxt += 1
                inflight[w] += 1

        for w in range(self.n):
            feed(w)
        while remaining:
            i, ok, val, w = self._get(900)
            if not ok:
                raise HarnessError(f"worker failure on item {i}: {val}")
            results[i] = val
            inflight[w] -= 1
            self.done_count[w] += 1
            remaining -= 1
            feed(w)
        return results

    def _get(self, limit):
        import queue
        import time
        t0 = time.time()
        while True:
            try:
                return self.outq.get(timeout=2)
            except queue.Empty:
                dead = [i for i, p in enumerate(self.procs) if not p.is_alive()]
                if dead:
                    raise HarnessError(f"worker(s) {dead} died (exit codes {[self.procs[i].exitcode for i in dead]})")
                if time.time() - t0 > limit:
                    raise HarnessError(f"worker pool: no result for {limit} s")

    def close(self):
        for i in range(self.n):
            try:
                self.inqs[i].put(None)
            except Exception:
                pass
        for p in self.procs:
            p.join(timeout=10)
            if p.is_alive():
                p.kill()

    def __enter__(self):
        return self

    def __exit__(self, *a):
        self.close()
