"""C15 — parameters only ever hold values of their declared type; submit fails fast (Engine S + W)."""
from __future__ import annotations

import copy
import itertools
import json

from .common import Result, clip_samples
from .pool import Pool

PROPERTY = "C15"
LEVEL = "exploration"

SCALARS = ["int", "float", "str", "bool", "path", "enum", "cfg"]


def type_exprs(depth):
    """Type expressions as nested tuples; depth = number of constructors on the longest path (scalar = 1)."""
    level = {1: [(s,) for s in SCALARS]}
    for d in range(2, depth + 1):
        level[d] = [("list", t) for t in level[d - 1]] + [("dict", t) for t in level[d - 1]]
    out = []
    for d in range(1, depth + 1):
        out.extend(level[d])
    return out


def tname(t):
    return t[0] if len(t) == 1 else f"{t[0]}[{tname(t[1])}]"


# ---- everything below runs in the worker (needs experimaestro)
def py_type(t):
    from pathlib import Path
    from typing import Dict, List
    import universe.g as U
    if len(t) == 1:
        return {"int": int, "float": float, "str": str, "bool": bool, "path": Path, "enum": U.Color, "cfg": U.Leaf}[t[0]]
    return List[py_type(t[1])] if t[0] == "list" else Dict[str, py_type(t[1])]


_CLASSES = {}


def config_class(t, optional):
    from typing import Optional
    from experimaestro import Config, Param
    key = (t, optional)
    if key not in _CLASSES:
        T = py_type(t)
        ann = {"v": Param[Optional[T]] if optional else Param[T], "w": Param[int]}
        ns = {"__annotations__": ann, "__module__": "universe.g", "__qualname__": f"Dyn{len(_CLASSES)}", "w": 0}
        if optional:
            ns["v"] = None
        _CLASSES[key] = type(f"Dyn{len(_CLASSES)}", (Config,), ns)
    return _CLASSES[key]


_NDEF = [0]


def default_class(t, optional, default):
    """A fresh class whose parameter `v` has `default` as its default value."""
    from typing import Optional
    from experimaestro import Config, Param
    T = py_type(t)
    _NDEF[0] += 1
    ann = {"v": Param[Optional[T]] if optional else Param[T], "w": Param[int]}
    ns = {"__annotations__": ann, "__module__": "universe.g", "__qualname__": f"DynD{_NDEF[0]}", "w": 0, "v": default}
    return type(f"DynD{_NDEF[0]}", (Config,), ns)


def good(t):
    from pathlib import Path
    import universe.g as U
    if len(t) == 1:
        return {"int": 3, "float": 1.5, "str": "s", "bool": True, "path": Path("/p"), "enum": U.Color.GREEN, "cfg": U.Leaf(i=1)}[t[0]]
    if t[0] == "list":
        return [good(t[1]), good(t[1])]
    return {"k": good(t[1]), "l": good(t[1])}


def type_ok(t, v):
    from pathlib import Path
    import universe.g as U
    if len(t) == 1:
        k = t[0]
        if k == "int":
            return isinstance(v, int)
        if k == "float":
            return isinstance(v, float)
        if k == "str":
            return isinstance(v, str)
        if k == "bool":
            return isinstance(v, bool)
        if k == "path":
            return isinstance(v, Path)
        if k == "enum":
            return isinstance(v, U.Color)
        if k == "cfg":
            return isinstance(v, U.Leaf)
    if t[0] == "list":
        return isinstance(v, list) and all(type_ok(t[1], x) for x in v)
    return isinstance(v, dict) and all(isinstance(k, str) and type_ok(t[1], x) for k, x in v.items())


def candidates(t):
    """(label, value, expectation) where expectation is ("equal",) for conforming values, ("coerced", value) for the
    documented coercions, ("any",) otherwise (accepted => must be of the type, or rejected)."""
    from pathlib import Path
    import universe.g as U
    out = [("conforming", good(t), ("equal",))]

    def subst(t, path, repl):
        """value of type t with the sub-value at `path` replaced by repl(sub-type)"""
        if not path:
            return repl(t)
        if t[0] == "list":
            return [subst(t[1], path[1:], repl), good(t[1])]
        return {"k": subst(t[1], path[1:], repl), "l": good(t[1])}

    def positions(t, prefix=()):
        yield prefix, t
        if len(t) > 1:
            yield from positions(t[1], prefix + (t[0],))

    for path, st in positions(t):
        where = "/".join(path) or "top"
        if len(st) == 1:
            k = st[0]
            if k == "int":
                out.append((f"coerce-integral-float@{where}", subst(t, path, lambda _: 3.0), ("coerced", subst(t, path, lambda _: 3))))
                wrong = ["x", 1.5, [1], {"a": 1}] + ([None] if path else [])
            elif k == "float":
                out.append((f"coerce-int@{where}", subst(t, path, lambda _: 2), ("coerced", subst(t, path, lambda _: 2.0))))
                wrong = ["x", [1.0], {"a": 1.0}] + ([None] if path else [])
            elif k == "str":
                wrong = [3, ["s"], {"a": "s"}] + ([None] if path else [])
            elif k == "bool":
                wrong = []
            elif k == "path":
                out.append((f"coerce-str@{where}", subst(t, path, lambda _: "/p"), ("coerced", subst(t, path, lambda _: Path("/p")))))
                wrong = [3, ["/p"]] + ([None] if path else [])
            elif k == "enum":
                wrong = ["GREEN", 2, ["x"]] + ([None] if path else [])
            else:
                wrong = [3, "s", "BOX", [1]] + ([None] if path else [])
            for wv in wrong:
                def repl(_t, wv=wv):
                    if wv == "BOX":
                        return U.Box(child=U.Leaf(i=0))
                    return copy.deepcopy(wv)
                out.append((f"wrong-{k}:{type(wv).__name__ if wv != 'BOX' else 'other-config'}@{where}", subst(t, path, repl), ("any",)))
        else:
            inner = st[1]
            if st[0] == "list":
                out.append((f"dict-for-list@{where}", subst(t, path, lambda _: {"k": good(inner)}), ("any",)))
                out.append((f"scalar-for-list@{where}", subst(t, path, lambda _: good(inner)) if len(inner) == 1 else subst(t, path, lambda _: 3), ("any",)))
                out.append((f"empty-list@{where}", subst(t, path, lambda _: []), ("equal",)))
            else:
                out.append((f"list-for-dict@{where}", subst(t, path, lambda _: [good(inner)]), ("any",)))
                out.append((f"int-key@{where}", subst(t, path, lambda _: {1: good(inner)}), ("any",)))
                out.append((f"empty-dict@{where}", subst(t, path, lambda _: {}), ("equal",)))
    return out


def eval_types(item):
    out = {"n": 0, "bad": []}
    for t, optional in item["types"]:
        t = tuple_of(t)
        try:
            cls = config_class(t, optional)
            cands = candidates(t)
            if optional:
                cands.append(("none@top", None, ("equal",)))
            else:
                cands.append(("none@top", None, ("any",)))
        except Exception as e:  # noqa
            out["bad"].append({"kind": "class-definition-raises", "type": tname(t), "error": f"{type(e).__name__}: {e}"[:300]})
            continue
        for label, val, exp in cands:
            for route in ("assign", "init", "default"):
                if route == "default" and (val is None or label == "conforming" and t == ("cfg",) and False):
                    continue
                out["n"] += 1
                before = "<unset>"
                try:
                    if route == "assign":
                        o = cls()
                        before = o.__xpm__.values.get("v", "<unset>")
                        o.v = val
                    elif route == "default":
                        # the value is the *default* of the parameter: an object built without it must hold a value of the type
                        o = default_class(t, optional, copy.deepcopy(val) if not _has_config(val) else val)()
                    else:
                        o = cls(v=val)
                    accepted = True
                except Exception as e:  # noqa
                    accepted = False
                    err = e
                case = {"type": tname(t) + ("?" if optional else ""), "candidate": label, "route": route}
                if accepted:
                    stored = o.v
                    okv = (stored is None and (optional or False)) if stored is None else type_ok(t, stored)
                    if stored is None and val is None and not optional:
                        okv = False
                    if not okv:
                        out["bad"].append(dict(case, kind="stores-value-of-other-type", stored=repr(stored)[:120]))
                    elif exp[0] == "equal" and not (stored == val):
                        out["bad"].append(dict(case, kind="conforming-value-reads-back-different", stored=repr(stored)[:120]))
                    elif exp[0] == "coerced" and not (stored == exp[1] and type_ok(t, stored)):
                        out["bad"].append(dict(case, kind="coercion-wrong", stored=repr(stored)[:120]))
                else:
                    if exp[0] in ("equal", "coerced"):
                        out["bad"].append(dict(case, kind="conforming-value-rejected", error=f"{type(err).__name__}: {err}"[:200]))
                    elif route == "assign":
                        now = o.__xpm__.values.get("v", "<unset>")
                        if now is not before and now != before:
                            out["bad"].append(dict(case, kind="rejected-but-changed", stored=repr(now)[:120]))
    return out


def _has_config(v):
    from experimaestro.core.objects import Config
    if isinstance(v, Config):
        return True
    if isinstance(v, (list, tuple)):
        return any(_has_config(x) for x in v)
    if isinstance(v, dict):
        return any(_has_config(x) for x in v.values())
    return False


def tuple_of(t):
    return tuple(tuple_of(x) if isinstance(x, (list, tuple)) else x for x in t)


# ---- (b) a required value missing anywhere => submit raises before anything is registered
def missing_cases(quick):
    from .genspace import enumerate_with_seeds
    from .refmodel import SCHEMA
    descs, _, _ = enumerate_with_seeds(["job"], ["job-holder"], N=5 if quick else 6, k=3 if quick else 4, kseed=1, allow=("struct", "pre"))
    out = []
    for G in descs:
        root = G["root"]
        for l, n in G["nodes"].items():
            if "output_of" in n or l == root:
                continue
            for f in SCHEMA[n["cls"]]["fields"]:
                if f["required"] and not f["generated"] and f["name"] in n["args"]:
                    H = copy.deepcopy(G)
                    del H["nodes"][l]["args"][f["name"]]
                    H["_missing"] = [l, f["name"]]
                    out.append(H)
                    if not (SCHEMA[n["cls"]].get("task") or SCHEMA[n["cls"]].get("light") or n.get("pre") or n.get("meta") is not None):
                        # the same hole in a configuration that was loaded from a parameter file
                        H2 = copy.deepcopy(H)
                        H2["_loaded"] = True
                        out.append(H2)
    return out


def upstream_of(G, l):
    """Is node l below an embedded (non-root) task?  Then the embedded task's own submission is the one that must fail."""
    from .refmodel import reachable
    from .genspace import is_task
    for t in G["nodes"]:
        if t != G["root"] and is_task(G, t) and l in reachable(G, t):
            return t
    return None


def eval_missing(item):
    from . import vworld as V, vxpm as X, graphs as Gr
    from .genspace import is_task
    X.install()
    out = {"n": 0, "bad": []}
    for G in item["cases"]:
        G = copy.deepcopy(G)
        miss = G.pop("_missing")
        loaded = G.pop("_loaded", False)
        rec = {}

        def extra(label, obj, B, miss=miss, rec=rec):
            # route "loaded": the configuration with the hole comes out of a parameter file written before the parameter became
            # required (deserialized as a configuration: sealed by the loader, never validated)
            if label == miss[0]:
                from experimaestro.core.objects import ConfigInformation
                import universe.g as U
                args = {a.name: v for a, v in obj.__xpm__.xpmvalues() if not a.constant and a.generator is None}
                full = obj.__class__(**dict(args, **{miss[1]: {"i": 1, "child": U.Leaf(i=0)}[miss[1]]}))
                data = json.loads(full.__xpm__.__json__())
                del data[-1]["fields"][miss[1]]
                B.objs[label] = ConfigInformation.fromParameters(data, as_instance=False)
                rec["loaded"] = True

        def script(wd, result, proc, G=G, rec=rec, extra=(extra if loaded else None)):
            from experimaestro import experiment
            with experiment(wd, "xp", launcher=X.make_launcher(wd)) as xp:
                try:
                    B = Gr.build(G, init=False, extra=extra)
                    rec["built"] = True
                    rec["registry_before"] = len(xp.scheduler.jobs)
                    rec["unfinished_before"] = X._count(xp.unfinishedJobs)
                    try:
                        Gr.submit(G, B, G["root"])
                        rec["root_submit"] = "accepted"
                    except Exception as e:  # noqa
                        rec["root_submit"] = f"{type(e).__name__}"
                    rec["registry_after"] = len(xp.scheduler.jobs)
                    rec["unfinished_after_submit"] = X._count(xp.unfinishedJobs)
                except Exception as e:  # noqa
                    rec["build_error"] = f"{type(e).__name__}: {e}"[:200]
        r, hub, world = V.run_world([script])
        out["n"] += 1
        embedded = upstream_of(G, miss[0])
        case = {"missing": miss, "G": G, "loaded": loaded}
        rootx = G["nodes"][G["root"]]["args"].get("x", 0)
        if "build_error" in rec:
            # the graph could not even be built: an embedded task with the hole was rejected at its own submission (fine)
            if embedded is None:
                out["bad"].append(dict(case, kind="build-raises", error=rec["build_error"]))
            continue
        if embedded is not None:
            out["bad"].append(dict(case, kind="embedded-task-with-missing-value-accepted", rec=rec))
            continue
        if rec.get("root_submit") == "accepted":
            out["bad"].append(dict(case, kind="submit-accepted-missing-required", rec=rec, where=where_of(G, miss[0])))
        elif rec.get("registry_after") != rec.get("registry_before") or rec.get("unfinished_after_submit") != rec.get("unfinished_before"):
            out["bad"].append(dict(case, kind="rejected-after-registration", rec=rec, where=where_of(G, miss[0])))
        if any(e[0] == "launch" and e[1] == f"j{rootx}" and not any(n2 != G["root"] and G["nodes"][n2].get("args", {}).get("x", 0) == rootx and is_task(G, n2) for n2 in G["nodes"])
               for e in r["events"]):
            out["bad"].append(dict(case, kind="launched-with-missing-required", rec=rec))
        if r.get("hung") or r.get("main_exc"):
            out["bad"].append(dict(case, kind="experiment-hangs-or-raises", hung=r.get("hung"), exc=str(r.get("main_exc"))[:300]))
    return out


def where_of(G, label):
    """How the node with the hole hangs below the root: direct / list / dict / pre / init / nested."""
    from .refmodel import refs_in
    kinds = []
    for l, n in G["nodes"].items():
        if "output_of" in n:
            continue
        for a, v in n["args"].items():
            if label in list(refs_in(v)):
                kinds.append("list" if isinstance(v, list) else ("dict" if isinstance(v, dict) and "dict" in v else "direct"))
        if label in n.get("pre", []):
            kinds.append("pre")
        if label in n.get("init", []):
            kinds.append("init")
    return "+".join(sorted(set(kinds))) or "?"


def run(ctx):
    res = Result(ctx, LEVEL)
    T = type_exprs(3 if ctx.quick else 4)
    types = [(t, opt) for t in T for opt in (False, True)]
    cases = missing_cases(ctx.quick)
    with Pool(seeds=[(ctx.seed + i) % 4096 for i in range(16)], init="engines.gwork:init") as pool:
        touts = pool.map("engines.c15:eval_types", [{"types": types[i::32]} for i in range(32)])
    with Pool(seeds=[0], init="engines.explore:worker_init") as pool:
        mouts = pool.map("engines.c15:eval_missing", [{"cases": cases[i::64]} for i in range(64)])
    n = 0
    for o in touts:
        n += o["n"]
        for b in o["bad"]:
            res.violation(f"{b['kind']}:{b.get('candidate', '').split('@')[0]}", f"{b}", {"part": "types", "bad": b})
    m = 0
    for o in mouts:
        m += o["n"]
        for b in o["bad"]:
            res.violation(f"{b['kind']}:{b.get('where', '')}" + (":loaded" if b.get("loaded") else ""), f"required {b['missing']} missing in {json.dumps(b['G'])[:500]}: {b.get('rec') or b.get('error') or ''}", {"part": "missing", "bad": b})
    res.coverage = {
        "evaluations": n + m,
        "distinct_nontrivial": len(types) + len(cases),
        "rule": "(a) all type expressions of depth <=3 (thorough 4) over {int,float,str,bool,Path,Enum,Config} with List[.] and Dict[str,.], each required "
                "and Optional at top level, as parameter of a dynamically defined Config class; candidates: one conforming value per shape, each "
                "documented coercion at every leaf position, every value with one constructor replaced by a wrong one at one depth (wrong scalar, None "
                "inside a container, list<->dict, scalar for container, non-string key); assigned by attribute and by keyword; accepted => stored value "
                "is deeply of the declared type (and equal for conforming / coerced input), rejected => attribute unchanged; (b) every task description "
                "within (N,k) with one required value removed at one node (below nested configs, lists, dicts, pre-tasks, init tasks), submitted in a "
                "virtual NORMAL-mode experiment: submit must raise with the registry and unfinishedJobs unchanged and nothing launched",
        "samples": clip_samples([{"type": tname(types[30][0]), "optional": types[30][1]}, {"missing": cases[3]["_missing"], "G": cases[3]}]),
        "exhaustive": True, "type_expressions": len(types), "assignments": n, "missing_cases": len(cases),
    }
    res.assumptions = ["bool(value) always yields a bool, so no candidate is 'wrong' for bool; Union is not among the statement's constructors",
                       "tuples are not offered for List parameters"]
    return res


def replay(ctx, payload):
    print(json.dumps(payload, default=str)[:3000])
    if payload["part"] == "missing":
        from . import gwork
        b = payload["bad"]
        G = dict(b["G"], _missing=b["missing"], _loaded=b.get("loaded", False))
        print(eval_missing({"cases": [G]}))
    return 0
