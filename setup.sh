#!/bin/sh
# Offline setup: nothing to build - the framework is Python run by /venv/bin/python (greenlet, watchdog, click already installed there).
set -e
cd "$(dirname "$0")"
/venv/bin/python -c "import greenlet, experimaestro, click, watchdog, fasteners; print('setup ok: greenlet', greenlet.__version__)"
mkdir -p evidence replays
# environment-model conformance (POSIX locks, inotify, TaskRunner behaviour table, end-to-end trace): reported, never fatal here
./check conformance 2>/dev/null || echo "conformance: DRIFT reported above (run ./check conformance)"
