#!/bin/sh
# Offline setup: nothing to build - the framework is Python run by /venv/bin/python (greenlet, watchdog, click already installed there).
set -e
cd "$(dirname "$0")"
/venv/bin/python -c "import greenlet, experimaestro, click, watchdog, fasteners; print('setup ok: greenlet', greenlet.__version__)"
mkdir -p evidence replays
