#!/venv/bin/python
"""tools/mkmeta.py <wave> : writes seeded/<name>/meta.json for confirmed changes that do not have one yet (from agent_meta.json + confirm.json)."""
import json
import sys
from pathlib import Path

SEEDED = Path(__file__).resolve().parent.parent / "seeded"
wave = sys.argv[1]
for d in sorted(SEEDED.iterdir()):
    if (d / "meta.json").exists() or not (d / "confirm.json").exists():
        continue
    a = json.loads((d / "agent_meta.json").read_text()) if (d / "agent_meta.json").exists() else {}
    c = json.loads((d / "confirm.json").read_text())
    m = {"property": c["property"], "wave": wave, "summary": a.get("summary", ""), "needs": a.get("needs", ""),
         "confirmed_here": c["confirmed"],
         "what_was_run": "tools/seeded.sh confirm (demo with / without the change, full test-suite with the change in the agent's scratch worktree); "
                         "checks run by tools/matrix.sh (PYTHONPATH=<scratch worktree with the change>/src ./check <ID>)",
         "caught_by_quick": [], "caught_by_thorough_only": [], "note": "", "keys": {}}
    (d / "meta.json").write_text(json.dumps(m, indent=1) + "\n")
    print("meta written:", d.name)
