import os, sys
sys.path.insert(0, __import__('os').path.dirname(__import__('os').path.dirname(__import__('os').path.abspath(__file__)))); os.environ.setdefault("EXPERIMAESTRO_VERIF","1")
def main():
    from engines import wcat
    from engines.explore import Search
    from engines.pool import Pool
    props=sys.argv[1].split(","); fn=sys.argv[2]; pols=sys.argv[3].split(";"); rb=int(sys.argv[4]); dem=(sys.argv[5] if len(sys.argv)>5 else False)
    scens=eval("wcat."+fn)
    with Pool(seeds=[0], init="engines.explore:worker_init", recycle=None) as pool:
        S=Search(pool, props)
        for pol in pols:
            for sc in scens:
                S.explore_kills(sc, policy=pol, restart_bound=rb, demote=(dem if dem=="only" else bool(dem)))
        print("executions", S.executions)
        seen={}
        for p,key,msg,payload in S.violations:
            k=(p,key,payload["scen"]["name"],payload["policy"]); seen.setdefault(k,[0,msg,payload])[0]+=1
        for k,(n,msg,payload) in sorted(seen.items()):
            print(k, f"x{n} kill={payload.get('kill')} sched={payload['schedule']}: {msg[:300]}")
        print("violations", len(S.violations))
if __name__=="__main__": main()
