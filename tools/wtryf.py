import os, sys
sys.path.insert(0, __import__('os').path.dirname(__import__('os').path.dirname(__import__('os').path.abspath(__file__)))); os.environ.setdefault("EXPERIMAESTRO_VERIF","1")
def main():
    from engines import wcat
    from engines.explore import Search
    from engines.pool import Pool
    props=sys.argv[1].split(","); fn=sys.argv[2]; pols=tuple(sys.argv[3].split(";"))
    scens=eval(fn)
    with Pool(seeds=[0], init="engines.explore:worker_init", recycle=None) as pool:
        S=Search(pool, props)
        S.explore_faults(scens, pols)
        print("executions", S.executions, S.completed)
        seen={}
        for p,key,msg,payload in S.violations:
            k=(p,key,payload["scen"]["name"],payload["policy"]); seen.setdefault(k,[0,msg,payload])[0]+=1
        for k,(n,msg,payload) in sorted(seen.items()):
            print(k, f"x{n} fault={payload.get('fault')}: {msg[:300]}")
        print("violations", len(S.violations))
if __name__=="__main__": main()
