#!/bin/bash
cd /verif
for i in 01 02 03 04 05 06 07 08 09 10 11 12 13 14 15 16 17 18 19 20; do
  s=$(date +%s)
  timeout 1800 ./check C$i --tier quick > /root/logs/q_C$i.log 2>&1; rc=$?
  e=$(date +%s)
  echo "C$i rc=$rc t=$((e-s))s $(grep -c -E '^VIOLATION' /root/logs/q_C$i.log) viol $(grep -c KNOWN-FINDING /root/logs/q_C$i.log) known" >> /root/logs/quick_summary.txt
done
echo DONE >> /root/logs/quick_summary.txt
