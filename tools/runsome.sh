#!/bin/bash
cd /verif
out=/root/logs/some_summary.txt; rm -f $out
for i in "$@"; do
  s=$(date +%s)
  VERIF_JOBS=${VERIF_JOBS:-9} timeout 2400 ./check $i --tier quick > /root/logs/q_$i.log 2>&1; rc=$?
  e=$(date +%s)
  echo "$i rc=$rc t=$((e-s))s $(grep -c -E '^VIOLATION' /root/logs/q_$i.log) viol $(grep -c KNOWN-FINDING /root/logs/q_$i.log) known" >> $out
done
echo DONE >> $out
