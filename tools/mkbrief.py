import json, sys, os, subprocess
props = {json.loads(l)['id']: json.loads(l) for l in open('/verif/properties.jsonl')}
wave = sys.argv[1]
ids = sys.argv[2:]
for pid in ids:
    p = props[pid]
    wt = f"/tmp/wt{wave}_{pid}"
    if not os.path.isdir(wt):
        subprocess.check_call(["git", "-C", "/repo", "worktree", "add", "-q", "--detach", wt, "HEAD"])
    os.makedirs(wt + "/MUTATION", exist_ok=True)
    avoid = []
    for d in sorted(os.listdir('/verif/seeded')):
        if d.startswith(pid + "-"):
            m = json.load(open(f'/verif/seeded/{d}/meta.json'))
            avoid.append("- " + m['summary'][:200].replace("\n", " "))
    anchors = p.get('anchors', {})
    brief = f"""# Brief

You work in a scratch git worktree of the experimaestro-python repository: `{wt}` (source under `src/experimaestro`).
Python: `/venv/bin/python`. ALWAYS run python with `PYTHONPATH={wt}/src` so that this worktree's source is imported and not the
installed copy (check: `PYTHONPATH={wt}/src /venv/bin/python -c "import experimaestro; print(experimaestro.__file__)"` must print a path under {wt}).
Do not read, list or modify anything under /verif or /repo, and do not look at other /tmp/wt* directories. There is no network.

## The property (of experimaestro-python) you must break

**{p.get('title','')}**

{p.get('statement','')}

Code the property is anchored in (hints): files {anchors.get('files')}; mechanisms: {json.dumps(anchors.get('mechanism'), indent=0)}

## What to produce

A *realistic* change to the library source (`src/experimaestro/**`, not the tests, not docs) - the kind of refactoring, "optimisation", clean-up
or well-meant bug fix a maintainer could plausibly commit - such that:

1. the package still imports and the repository's existing test-suite still passes with the change:
   `cd {wt} && PYTHONPATH={wt}/src /venv/bin/python -m pytest -q -p no:cacheprovider --timeout=900 src/experimaestro/tests`
   (about 1-2 minutes; on the unchanged tree it gives about "123 passed, 7 skipped, 1 xfailed"; the tests test_token_fail, test_restart[*],
   test_token_restart[*], test_token_cleanup, test_slurm_batchprocess, test_foreign_type are timing/order sensitive and may be ignored if they fail with AND without the change);
2. the property above is broken by the change;
3. the breakage needs something *specific* to manifest: a particular interleaving of threads/processes/notifications, a crash or kill or fault at a
   particular point, a multi-step sequence of operations, an unusual (but legal) input shape, or two cooperating code sites that each look fine alone.
   NOT something that ordinary use or a casual smoke test would expose at once. Subtle beats blatant.
4. it is a different mechanism from the changes that already exist for this property:
{chr(10).join(avoid) if avoid else '- (none yet)'}

Keep the change small (a few lines to a few dozen). Do not touch tests. Do not add debugging hooks.

## Deliverables (in `{wt}/MUTATION/`)

- `patch.diff` : output of `git -C {wt} diff -- src` (the change, and nothing else).
- `demo.py` : a standalone demonstration program, run as `PYTHONPATH={wt}/src /venv/bin/python MUTATION/demo.py` from `{wt}`:
  exits 0 on the unchanged source and exits non-zero (printing what went wrong) with your change applied. It must be deterministic
  (force the needed interleaving/fault with events, monkeypatching of timing, explicit kills... rather than hoping for it), use temporary directories
  it cleans up, and finish within two minutes. Verify BOTH directions yourself (`git stash` is shared between worktrees: use `git -C {wt} apply -R MUTATION/patch.diff` / `git -C {wt} apply MUTATION/patch.diff` instead).
- `meta.json` : {{"summary": "<what was changed, where, why it looks innocent>", "needs": "<what exactly is needed for the breakage to manifest>"}}

Leave the worktree with the change applied. In your final answer give a five-line summary (file/function changed, mechanism, what the demo does, test-suite result line).
"""
    open(wt + "/MUTATION/BRIEF.md", "w").write(brief)
    print(wt)
