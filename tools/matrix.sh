#!/bin/bash
# tools/matrix.sh [name...] : for every seeded change, runs the quick check(s) of its property against a scratch worktree of /repo
# that has the change applied (PYTHONPATH=<worktree>/src; /repo itself is not touched) and prints one line per change.
set -u
wt=/tmp/wt_matrix_$$
git -C /repo worktree add -q --detach $wt HEAD || exit 2
trap 'git -C /repo worktree remove --force $wt; git -C /repo worktree prune' EXIT
cd /verif
names=${@:-$(ls seeded)}
for name in $names; do
  grep -q "\"status\": \"obsolete" seeded/$name/meta.json && { echo "$name: obsolete (skipped)"; continue; }
  prop=${name%%-*}
  git -C $wt checkout -q -- . && git -C $wt apply /verif/seeded/$name/patch.diff || { echo "$name: patch does not apply"; continue; }
  extra=$(/venv/bin/python -c "import json,sys; m=json.load(open('seeded/$name/meta.json')); print(' '.join(m.get('also_run', [])))" 2>/dev/null)
  for c in $prop $extra; do
    out=$(PYTHONPATH=$wt/src VERIF_EVIDENCE_DIR=/tmp/ev_matrix_$$ ./check $c --tier ${TIER:-quick} 2>&1); rc=$?
    keys=$(echo "$out" | grep -E "key=" | sed 's/ witnesses.*//' | tr -d ' ' | tr '\n' ' ')
    echo "$name $c exit=$rc $keys"
  done
done
