"""The claims table of MANIFEST.json (one entry per property that has a working check)."""

def register(claim, na):
    claim("C18", "S", "exploration",
          "exhaustive enumeration of request expressions x host grid against a reference sufficiency predicate",
          "Every request expression built from the term alphabet (cpu mem x cores, cuda mem x count, duration; & up to 3 terms, | of 2 alternatives; "
          "programmatic and textual in 3 whitespace layouts) is evaluated on every host of a 168-host grid; match() is compared with an independent "
          "sufficiency predicate, parse() with the programmatic value, operands are deep-snapshotted around &, *, |. Complete within the alphabet; "
          "a closed finite product is the right level for a pure function of two small structures.",
          "Alphabet bounds (3 memory sizes, 3 core counts, <=3 GPUs, 3 durations); host policies min_memory/priority left at defaults; humanfriendly's size/timespan parsing trusted.",
          "DESIGN.md 3/C18")
