"""The claims table of MANIFEST.json (one entry per property that has a working check)."""

def register(claim, na):
    claim("C18", "S", "exploration",
          "exhaustive enumeration of request expressions x host grid against a reference sufficiency predicate",
          "Every request expression built from the term alphabet (cpu mem x cores, cuda mem x count, duration; & up to 3 terms, | of 2 alternatives; "
          "programmatic and textual in 3 whitespace layouts) is evaluated on every host of a 168-host grid; match() is compared with an independent "
          "sufficiency predicate, parse() with the programmatic value, operands are deep-snapshotted around &, *, | (also a union extended by a third alternative on either side: the union is an operand too, its structure and its matches must not change); LauncherRegistry.find over two hosts "
          "examined in sequence must return the launcher of the first alternative some host satisfies. Complete within the alphabet; "
          "a closed finite product is the right level for a pure function of two small structures.",
          "Alphabet bounds (3 memory sizes, 3 core counts, <=3 GPUs, 3 durations); host policies min_memory/priority left at defaults; humanfriendly's size/timespan parsing trusted.",
          "DESIGN.md 3/C18")

    G_NOTE = ("Bounds: N configuration nodes, k deviations from the all-default graph of each root class and from hand-made seed graphs "
              "(cycles, sharing, meta elements, tasks, outputs, pre/init tasks); value alphabets of 2-9 values per kind; the universe of classes in "
              "/verif/universe/g.py. The reference encoder/signature (engines/refmodel.py) is trusted as the reading of the documentation; it is "
              "independent of experimaestro's hashing code and cross-checked against 349 identifiers pinned from the original commit.")
    claim("C01", "G", "exploration",
          "bounded-exhaustive enumeration of configuration graphs x construction/sealing/request histories x hash seeds, compared with an independent reference encoder; preemption-bounded exhaustive exploration of two real threads",
          "All descriptions within (N, k) are built by the real API under every history of the history alphabet (construction style, keyword and dict "
          "insertion order, identifier requests on all nodes in all orders before and after sealing/submitting) in two processes with different "
          "PYTHONHASHSEED; every identifier obtained must equal the content-determined value of the reference encoder, job directories must derive "
          "from it, and 349 identifiers pinned from the original commit must be reproduced. Further histories: written out and loaded back with the "
          "stored identifiers kept; a task output that is a parameter of its own task; two user threads (Engine T: real threads, every schedule with <= 1 "
          "preemption at the traced events of core/objects.py) computing identifiers / sealing / instantiating configurations that share "
          "sub-configurations - observations must equal the sequential ones. The 'marked own parameter' family is also compared with the identifiers the pinned commit gives (pins/marked.json). Exhaustive within the stated bounds.",
          G_NOTE, "DESIGN.md 2.1, 3/C01")
    claim("C02", "G", "exploration",
          "bounded-exhaustive enumeration of configuration graphs x every applicable signature-neutral edit at every node",
          "For every description, every neutral edit the statement lists (explicit default/None, Meta/Option/Path value, meta-flagged sub-configurations "
          "as field/list element/dict value and changes below them, tags, token and explicit dependencies, launcher, workspace, run mode, class "
          "extended with defaulted/Meta/generated parameters) is applied at every node where it applies; the real identifier must not change. "
          "The reference signature must agree that the edit is neutral, otherwise the check stops as a harness error. Plus the closed family "
          "'default value that is itself a configuration' (8 writings x 2 classes x 2 embeddings x 4 sealing histories; one known finding listed in known_findings.txt).",
          G_NOTE, "DESIGN.md 3/C02")
    claim("C03", "G", "exploration",
          "bounded-exhaustive enumeration of configuration graphs, grouping by real identifier against canonical signatures; preemption-bounded exhaustive exploration of two real threads",
          "All descriptions within (N, k) - the space contains every pair one small structural edit apart because it contains everything - are "
          "identified by the real code; any two descriptions sharing an identifier must have the same canonical signature. Plus two closed families: a "
          "task output that is a parameter of its own task (marked after it was sealed and identified), and identifiers observed under every "
          "schedule with <= 1 preemption of two real threads working on configurations that share sub-configurations (Engine T), for two contents of each shape.",
          G_NOTE + " Domain as in the statement: no control characters, dicts nested <= 2 levels.", "DESIGN.md 3/C03")

    claim("C12", "G", "exploration",
          "bounded-exhaustive enumeration of configuration graphs x serialisation routes, reloaded graph compared by canonical relabelling",
          "Every description within (N,k) is built, sealed/submitted, written and read back through every route (objects list of params.json in "
          "configuration and instance mode, state_dict/from_state_dict, save/load); the reloaded real objects are walked into a description that must "
          "be isomorphic to the original (classes, every parameter incl. ignored ones, sharing, cycles, meta flags, pre/init task lists, producing "
          "task of outputs) and the recomputed identifier must equal the original. Two real GENERATE_ONLY job directories are read by the real "
          "run() and the task body's view (values, sharing, tags, pre/init/body order) compared with what was configured (after an earlier generation of "
          "the same directory with other Meta values / tags). Identifiers (full and raw) of every reloaded node and of a fresh configuration "
          "embedding the reloaded root are compared with the originals, also when the loader keeps the stored identifiers. NORMAL-mode route on "
          "Engine W: a job submitted again with another Meta value after a failure - every launched process reads the values of the submission that launched it. Data files (DataPath): save/load and serialize/deserialize x one / two / shared files x fresh directory / saved again / source replaced / other object in the same directory - loaded content equals the configured one, source files untouched.",
          G_NOTE, "DESIGN.md 3/C12")
    claim("C13", "G", "exploration",
          "bounded-exhaustive enumeration of configuration graphs (sharing, cycles, pre/init tasks anywhere) x {instance(), fromParameters}",
          "Instrumented universe classes log __post_init__ (with which parameters are readable) and execute; for every description and both routes: "
          "runtime object graph isomorphic to the description, one object per configuration, __post_init__ once per object after its parameters, "
          "each pre-task executed once, init tasks once, in order, after the pre-tasks. The universe contains user classes whose objects are falsy (__len__ / __bool__).",
          G_NOTE, "DESIGN.md 3/C13")
    claim("C14", "G", "exploration",
          "bounded-exhaustive enumeration of configuration graphs x {seal, submit} x every node x every mutation attempt",
          "After seal() or a DRY_RUN submit, every assignment of a type-correct value to every parameter of every reachable node (through lists, dicts, "
          "task outputs, pre/init tasks, cycles), set_meta and add_pretasks must raise; identifiers of all nodes and the job directory are re-read after "
          "every attempt and must not move. Also after an aborted first sealing attempt and for a task first instantiated in a directory context of "
          "its own; the complete value table (generated paths included) of configurations sealed earlier (upstream tasks) must not be changed by a later submission. The same operations applied to a copyconfig() of every frozen node must leave the original (values, pre-tasks, init tasks, meta flag, identifiers) untouched.",
          G_NOTE, "DESIGN.md 3/C14")
    claim("C17", "G", "exploration",
          "bounded-exhaustive enumeration of task graphs with generated-path parameters at every position, submitted twice",
          "All generated paths of every description must lie inside the job directory, be pairwise distinct across (object, parameter) pairs, and be "
          "identical (relative to the job directory) when an equal fresh graph is submitted again in every construction style / order, and in another process "
          "with another PYTHONHASHSEED.",
          G_NOTE, "DESIGN.md 3/C17")

    W_NOTE = ("The real scheduler, tokens, locks, launcher, script builder and job preparation run unmodified on a virtual asyncio loop with "
              "greenlet actors; modelled (and trusted within their conformance checks): job processes (behaviour table of TaskRunner), POSIX record "
              "locks, inotify delivery, process death. A deviation is another actor at a scheduling point or a long preemption (the default actor is "
              "descheduled until nothing else can run); default policies: FIFO (non-preemptive), LIFO, jobs-first, static priorities by actor kind and "
              "by process. Bounds: deviation bound per scenario (reported), <=4 jobs, <=2 scheduler processes, <=2 tokens, <=2 user threads; "
              "loop callbacks atomic between scheduling points (file, lock and thread-lock operations are scheduling points in fine-grained scenarios).")
    W_TECH = "stateless deviation-bounded exhaustive exploration of schedules of the real scheduler under a controlled scheduler (virtual loop + greenlet actors)"
    claim("C04", "W", "model_checking", W_TECH,
          "Every DAG on <=3 nodes in every topological submission order with every edge realised by each of 11 embedding kinds (rotated), diamonds on 4 "
          "nodes and failing subsets are run under every schedule within the deviation bound from 2-3 default policies; at each launch event every "
          "ancestor from the scenario description must already have exited with 0. Static half (Engine G): job.dependencies after a DRY_RUN submit "
          "equals the reference upstream set for every task description within (N,k). Plus late-join scenarios (dependencies partly over at submission, "
          "all pairs of embedding kinds, both iteration orders of the dependency sets), carry-over of task objects between experiments, job-process deaths, and a task that defines task_outputs used as a task-typed value itself (directly, in containers, through pre/init tasks).",
          W_NOTE, "DESIGN.md 2.2, 3/C04")
    claim("C05", "W", "model_checking", W_TECH,
          "Submission histories (duplicates at every position, second experiment with the success marker present, re-submission after failure), two "
          "nested experiments, two user threads submitting identical configurations to one experiment, and two simulated scheduler processes "
          "submitting the same job with fine-grained scheduling points; all schedules within the bound; two real TaskRunner processes of one job "
          "directory interleaved at every line (pair exploration) and three of them (the second held inside its body while a third is launched); oracles on every execution: first output returned, one registry entry, body intervals never overlap, no body after success, no "
          "launch when the marker existed at submission.",
          W_NOTE, "DESIGN.md 3/C05")
    claim("C06", "W", "model_checking", W_TECH,
          "Token workloads, DAGs with failing subsets, submission histories, job.wait()/experiment.wait() scripts and jobs taken back from another "
          "scheduler (whose process dies at every point) under all schedules within the bound from three default policies; every "
          "assignment to Job.state is logged (finality), final states are compared with exit codes, job.wait() values, unfinishedJobs, quiescent hangs "
          "and the position of the experiment's exit relative to the last final state are checked on every execution. Includes two scheduler "
          "processes sharing a token directory (fine-grained points incl. lock hand-over, long preemptions, eager-observer policies), late joiners and carry-over between experiments.",
          W_NOTE, "DESIGN.md 3/C06")
    claim("C07", "W", "model_checking", W_TECH,
          "Every DAG on <=3 nodes x every non-empty failing subset (plus failing token holders) under all schedules within the bound: no launch below a "
          "failed ancestor, cancelled jobs end ERROR/DEPENDENCY, independent jobs end by their own exit code, FailedExperiment iff some job failed - also "
          "when the failed upstream belongs to an earlier experiment of the process (carry-over).",
          W_NOTE, "DESIGN.md 3/C07")
    claim("C08", "W", "model_checking", W_TECH,
          "Seven (capacity; requests) workloads, failing holder, chain/fork under a token, two tokens, file and process tokens, two simulated processes "
          "sharing the token directory (fine-grained points, 17 default policies incl. process priorities, long preemptions): at every launch and every token-file creation of every execution the held amount must "
          "not exceed the capacity (per token directory: a token defined again by a nested experiment is the same token). Plus a holder that fails or is killed (stale pid file) and is launched again while a second process has jobs on the token: every kill point, long preemptions after the kill.",
          W_NOTE, "DESIGN.md 3/C08")
    claim("C09", "W", "model_checking", W_TECH,
          "The C08 workloads: at the quiescent end of every execution no hang (a fitting waiting job was launched), no token file left, available == "
          "total in every live process, no observer/watcher thread died. The same named token used by consecutive experiments of one process (the real SchedulerCentral.run/stop are executed on the virtual loop); a failed / killed holder launched again. Scheduler death while tokens are held is explored by C11's kill enumeration.",
          W_NOTE, "DESIGN.md 3/C09")

    claim("C11", "W", "fault_enumeration",
          "exhaustive kill-point enumeration: the scheduler process of the real code is killed before every scheduling step (file/lock/spawn granularity) and the experiment re-run",
          "Six scripts (single, chain, fork, with and without tokens): the first run is killed abruptly at every one of its scheduling points under "
          "FIFO, JOBS-FIRST and LIFO default policies (so the restart happens at once, after the orphans finished, or before them), the job processes "
          "live on, the script is run again in a fresh simulated process and its continuation explored with up to one deviation; over both runs every "
          "successful body must have executed exactly once and never twice at a time, the second run must end all DONE without hang/exception, no "
          "token file may remain and available == total. A generated script left empty, truncated or non-executable by the kill is refused by the virtual Popen / interpreter as by the real ones. The scheduler-side lock class of the tree is executed (fasteners itself is virtual); plus real processes: a holder of the run lock through that class, a job process arriving meanwhile (stopped at every 4th / every traced line), the holder leaves, the job is held in its body, a second job process must wait.",
          W_NOTE + " SIGINT (handler -> experiment.stop()) is not explored.", "DESIGN.md 3/C11")
    claim("C16", "W", "model_checking",
          "exhaustive enumeration of run histories of one experiment name (plus schedules within the deviation bound and kill points) on the real scheduler, index read after every run",
          "All 512 three-run histories over subsets of two jobs x {normal end, exception}, all two-run histories with the exception raised with or "
          "without waiting under <=1 deviation from three policies, a completed run followed by a run killed at every scheduling point and re-run, two "
          "processes entering the same experiment: after every run jobs/ must equal the run's plan with resolving links and no jobs.bak (normal end), "
          "or jobs + jobs.bak must still contain the last completed plan (abort/kill), and the real `orphans` command must list none of them. The lock "
          "model follows POSIX record locks (per process and per open FILE - inode-keyed, a waiter keeps the unlinked file open; dropped when the process closes any descriptor of the file); three holders of one experiment (a waiter inside when the first process re-enters; three processes); histories ending with a DRY_RUN / GENERATE_ONLY run, which must leave the index and the backup as they were.",
          W_NOTE, "DESIGN.md 3/C16")

    claim("C10", "K", "fault_enumeration",
          "explicit-state exhaustive crash-point enumeration: the real generated job script is launched from every reachable job-directory state with each signal at every traced line",
          "A state is the canonical job directory (success marker, failure marker content, interrupted body). From every state the real TaskRunner is "
          "run (forked child of a worker that imported experimaestro; runpy + atexit as a fresh interpreter) with no signal and with SIGKILL, SIGTERM, "
          "SIGINT (thorough: SIGHUP) delivered at every line event of run.py, the generated script and the task body; successor states are explored "
          "breadth-first until no new state appears; three task variants. Checked on every transition: success marker only after a completed body, "
          "lock free after death, relaunch runs the body iff no success marker, TERM/INT inside the body leave a failure marker and no success marker, "
          "a run that ended on its own leaves no pid file. Fault dimension: each call of TaskRunner into experimaestro.notifications raises once (thorough: combined with every signal at every line). Overlapping launches: pairs and triples of real TaskRunner processes on one job directory (see C05).",
          "Crash points are Python line events (a signal between two lines behaves as at the next line). The pid file is written by the harness before "
          "every launch (the scheduler writes it right after the spawn). Fork-server launch instead of a fresh interpreter.", "DESIGN.md 2.3, 3/C10")

    claim("C19", "S+F", "exploration",
          "exhaustive enumeration of filter expressions x tag/state assignments against a reference evaluator, and of workspace layouts x real CLI commands against expected deletion sets",
          "(a) Every filter built from the atom alphabet (=, var=var, in, not in, ~ over two tags, @state, @name; pure and/or chains of <=3 atoms) is "
          "compiled by the real createFilter and evaluated on 36 real job directories covering all tag/state assignments; (b) every two-job layout "
          "(marker state incl. a re-launched job still carrying its failure marker x tag x membership in jobs / jobs.bak / none; thorough: three jobs) "
          "is built on disk and `jobs clean` (+-filter, +-perform) and `orphans` (+-clean) are run through the real click CLI; the set of directories "
          "that disappeared must equal the expected deletion set (nothing without --perform, never a job whose process is alive). A third tag carries "
          "values and patterns with dots, digits and backslashes. `jobs clean --perform` also with a failed job launched again between the processing of any two jobs (every failed job x every moment): it must survive. Job directories also hold files whose names merely end like a marker (task.epoch-3.done, task.step.failed, task.old.pid).",
          "Closed alphabets (2 tags x 3 values, 4 states, 9 commands). Mixed and/or chains without parentheses are not enumerated (no documented "
          "precedence). `jobs kill` is outside the statement.", "DESIGN.md 3/C19")

    claim("C15", "S+W", "exploration",
          "exhaustive enumeration of type expressions x candidate values against a reference type checker, and of task graphs with one required value removed submitted in the virtual scheduler",
          "(a) All type expressions of depth <=3 (thorough 4) over seven scalar kinds with List/Dict, required and Optional, each as parameter of a "
          "dynamically defined class; candidates: the conforming value, each documented coercion at each leaf, every one-constructor-off value at "
          "every depth; by attribute assignment and by keyword: an accepted value must be deeply of the declared type and read back equal, a rejected "
          "one must leave the parameter unchanged; the same candidates as *default value* of the parameter of a fresh class. (b) Every task description within (N,k) with one required value removed at one node is "
          "submitted in a NORMAL-mode experiment running on the virtual scheduler: submit must raise with registry and unfinishedJobs unchanged "
          "and nothing launched. The hole also in a configuration loaded from a parameter file (sealed by the loader, never validated).",
          "Closed value alphabet (one conforming value per shape); bool accepts everything by design; Union not covered.", "DESIGN.md 3/C15")

    claim("C20", "G+F", "exploration",
          "bounded-exhaustive enumeration of configuration graphs with deprecated classes at every position, and explicit-state BFS over workspace states with the real repair command as transitions",
          "(a) For every description within (N,k), each node whose class has a deprecated twin is replaced by the twin (one at a time and all "
          "together): all identifiers must be those of the description with the replacement classes. (b) Workspaces are written by the real scheduler "
          "(virtual world) with the class not yet deprecated; from each, `deprecated list`, `--fix`, `--fix --cleanup` are applied in every order until "
          "no new canonical jobs/ tree appears (previously linked and partially repaired states arise by themselves); in every state the job data must "
          "still exist; after any --fix the new path must resolve to the old files and re-submitting the replacement class in a virtual experiment "
          "must launch nothing. Layouts include a replacement-type directory that lives elsewhere and is linked into jobs/, a two-step deprecation, and a job that depends on the deprecated class only through the output of an upstream task. One known finding (renamed class) is listed in known_findings.txt.",
          G_NOTE + " Two deprecated pairs (moved, renamed), <=2 former jobs per workspace.", "DESIGN.md 3/C20")
