#!/venv/bin/python
"""Generates pins/identifiers.json: description -> identifier as computed by the tree on PYTHONPATH (run once against the
pinned commit: `PYTHONPATH=<worktree of 406b0b9>/src:/verif tools/mkpins.py`).  Identifiers are requested on freshly built,
unsealed graphs (roots that are submittable tasks are submitted), i.e. on the routes that the pinned commit computes correctly."""
import json, os, sys
sys.path.insert(0, os.path.dirname(os.path.dirname(os.path.abspath(__file__))))
sys._called_from_test = True
import warnings; warnings.filterwarnings("ignore")
import experimaestro
print("experimaestro from", experimaestro.__file__)
from engines import genspace, gwork
from engines.c01 import ROOTS, SEEDS
gwork.init()
descs, hist, _ = genspace.enumerate_with_seeds(ROOTS, SEEDS, N=4, k=2, kseed=1)
step = max(1, len(descs) // 330)
sel = descs[::step]
# plus every seed and every default root
out = []
for G in sel:
    o = gwork.eval_ids({"G": G})
    if "error" in o:
        print("skip", o["error"]); continue
    out.append({"G": G, "id": o["id"]})
json.dump(out, open(os.path.join(os.path.dirname(os.path.dirname(os.path.abspath(__file__))), "pins", "identifiers.json"), "w"))
print(len(out), "pins written")
