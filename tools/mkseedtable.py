#!/venv/bin/python
"""tools/mkseedtable.py <matrix log>... : folds the output of tools/matrix.sh into seeded/*/meta.json (caught_by_quick, keys) and
prints the markdown table of DESIGN.md 8.3."""
import json
import sys
from pathlib import Path

SEEDED = Path(__file__).resolve().parent.parent / "seeded"
res = {}
for f in sys.argv[1:]:
    for line in Path(f).read_text().splitlines():
        parts = line.split()
        if len(parts) >= 3 and parts[2].startswith("exit="):
            name, check, rc = parts[0], parts[1], int(parts[2][5:])
            keys = [p[4:] for p in parts[3:] if p.startswith("key=")]
            res.setdefault(name, {})[check] = (rc, keys)
rows = []
for d in sorted(SEEDED.iterdir()):
    mp = d / "meta.json"
    if not mp.exists():
        continue
    m = json.loads(mp.read_text())
    if d.name in res:
        m["caught_by_quick"] = sorted(c for c, (rc, keys) in res[d.name].items() if rc == 1)
        m["keys"] = {c: keys[:6] for c, (rc, keys) in res[d.name].items() if keys}
        mp.write_text(json.dumps(m, indent=1) + "\n")
    caught = ", ".join(m.get("caught_by_quick") or []) or ("— (thorough: %s)" % ", ".join(m["caught_by_thorough_only"]) if m.get("caught_by_thorough_only") else "— not caught")
    if m.get("also_caught_by"):
        caught += " (also: " + ", ".join(m["also_caught_by"]) + ")"
    if m.get("status", "").startswith("obsolete"):
        caught += " (while it applied)"
    keys = "; ".join(f"{k}" for c in (m.get("keys") or {}).values() for k in c[:2])
    note = m.get("note", "")
    rows.append(f"| `{d.name}` | {m['property']} | {m.get('wave', '1-2')} | {caught} | {(note + '; ' if note else '')}{('keys: ' + keys) if keys else ''}{(' — ' + m['status']) if m.get('status') else ''}{(' — ' + m['rebased']) if m.get('rebased') else ''} |")
print("| change | property | wave | caught by (quick tier) | remarks |\n|---|---|---|---|---|")
print("\n".join(rows))
