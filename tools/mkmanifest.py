#!/venv/bin/python
"""Regenerates /verif/MANIFEST.json from the table below (kept in one place so it is always valid)."""
import json, os, sys
HERE = os.path.dirname(os.path.dirname(os.path.abspath(__file__)))
sys.path.insert(0, HERE)

BASELINE = "cd /repo && /venv/bin/python -m pytest -ra -q -p no:cacheprovider --timeout=900 --continue-on-collection-errors"

# id -> (engine, level, technique, text, note, design_ref)
CHECKS = {}
NOT_APPLICABLE = {}

def claim(pid, engine, level, technique, text, note, ref):
    CHECKS[pid] = dict(engine=engine, level=level, technique=technique, text=text, note=note, ref=ref)

from tools.claims import register
register(claim, NOT_APPLICABLE)

props = [json.loads(l)["id"] for l in open(os.path.join(HERE, "properties.jsonl"))]
checks = []
for pid in props:
    if pid not in CHECKS:
        NOT_APPLICABLE.setdefault(pid, "check not built yet (planned, see DESIGN.md section 3); nothing is claimed for it at this commit")
        continue
    c = CHECKS[pid]
    checks.append({
        "property_id": pid,
        "quick_cmd": f"./check {pid} --tier quick",
        "thorough_cmd": f"./check {pid} --tier thorough",
        "evidence_file": f"/verif/evidence/{pid}.json",
        "replay_cmd_template": f"./check {pid} --replay {{path}}",
        "engine": c["engine"],
        "level_claimed": {"category": c["level"], "text": c["text"], "design_ref": c["ref"]},
        "level_note": c["note"],
        "technique": c["technique"],
    })
manifest = {
    "version": 1,
    "setup_cmd": "./setup.sh",
    "hooks": {
        "guard": "EXPERIMAESTRO_VERIF",
        "enable": "no source hooks: the harness rebinds module globals of the imported experimaestro package (DESIGN.md 2.2.2); checks export EXPERIMAESTRO_VERIF=1 for uniformity",
        "baseline_off_cmd": BASELINE,
        "source_commits": [],
        "add_only": True,
    },
    "engines": [
        {"name": "S", "path": "engines/c18.py engines/c19.py engines/c15.py", "serves_properties": ["C15", "C18", "C19"], "kind_free_text": "closed exhaustive products against reference evaluators"},
        {"name": "G", "path": "engines/graphs.py engines/refmodel.py universe/", "serves_properties": ["C01", "C02", "C03", "C12", "C13", "C14", "C15", "C17", "C20"], "kind_free_text": "bounded-exhaustive configuration graphs x construction histories x hash seeds, independent reference encoder"},
        {"name": "W", "path": "engines/vworld.py engines/vxpm.py engines/explore.py", "serves_properties": ["C04", "C05", "C06", "C07", "C08", "C09", "C11", "C16"], "kind_free_text": "stateless deviation-bounded model checker running the real scheduler on a virtual asyncio loop with greenlet actors, simulated processes / POSIX locks / inotify, kill injection"},
        {"name": "K", "path": "engines/crash.py engines/crash_shim.py", "serves_properties": ["C10"], "kind_free_text": "explicit-state BFS over real job processes killed at every traced line"},
        {"name": "T", "path": "engines/tworld.py engines/twork.py", "serves_properties": ["C01", "C03"], "kind_free_text": "preemption-bounded exhaustive exploration of real threads (sys.settrace baton scheduler, every plan with <= 1 preemption at traced call/line events)"},
        {"name": "F", "path": "engines/c16.py engines/c19.py engines/c20.py", "serves_properties": ["C16", "C19", "C20"], "kind_free_text": "explicit-state BFS over workspace layouts with the real CLI as transitions"},
    ],
    "checks": checks,
    "not_applicable": [{"property_id": p, "reason": r} for p, r in sorted(NOT_APPLICABLE.items()) if p not in CHECKS],
    "notes": "All checks: ./check <ID> --tier quick|thorough; VERIF_SEED rotates hash seeds / worker assignment / exploration order only. Known findings: known_findings.txt.",
}
json.dump(manifest, open(os.path.join(HERE, "MANIFEST.json"), "w"), indent=1)
print("checks:", [c["property_id"] for c in checks], "not_applicable:", sorted(p for p in NOT_APPLICABLE if p not in CHECKS))
