#!/bin/bash
cd /verif
for spec in "$@"; do
  id=${spec%%:*}; name=${spec##*:}
  echo "== $name" 
  tools/seeded.sh confirm $id /tmp/wt${WAVE:-4}_$id $name 2>&1 | tail -6
done
echo CONFIRM-DONE
