#!/bin/bash
# tools/thorough_all.sh [ids...] : runs the thorough tier of the given checks one after the other (each under a time limit), one summary line each
cd "$(dirname "$0")/.."
ids=${@:-C18 C19 C15 C14 C17 C20 C10 C12 C13 C01 C02 C03 C16 C07 C04 C05 C11 C06 C08 C09}
for i in $ids; do
  s=$(date +%s)
  timeout ${THOROUGH_TIMEOUT:-7200} ./check $i --tier thorough > thorough_$i.log 2>&1; rc=$?
  e=$(date +%s)
  echo "$i rc=$rc t=$((e-s))s viol=$(grep -c -E '^VIOLATION' thorough_$i.log) known=$(grep -c KNOWN-FINDING thorough_$i.log) $(grep -E '^\[C' thorough_$i.log | cut -c1-200)"
done
echo ALL-DONE
