#!/bin/bash
# tools/seeded.sh confirm <ID> <worktree> <name>   : confirms a sub-agent's change (demo fails with / passes without, suite passes) and stores it in seeded/<name>
# tools/seeded.sh run <name> <check> [<check>...]  : applies seeded/<name>/patch.diff to /repo, runs the quick checks, restores /repo
set -u
cmd=$1; shift
case $cmd in
confirm)
  id=$1; wt=$2; name=$3
  cd $wt || exit 2
  # the agent's MUTATION/patch.diff is authoritative (worktrees of one repository share the stash: changes got swapped)
  if [ -f MUTATION/patch.diff ]; then git checkout -q -- src && git apply MUTATION/patch.diff || { echo "patch.diff does not apply"; exit 2; }; fi
  git diff -- src > /tmp/seed_$name.diff
  [ -s /tmp/seed_$name.diff ] || { echo "no source change in $wt"; exit 2; }
  demo=MUTATION/demo.py; [ -f $demo ] || demo=$(ls MUTATION/demo*.py | head -1)
  PYTHONPATH=$wt/src timeout 600 /venv/bin/python $demo > /tmp/seed_${name}_with.txt 2>&1; rc_with=$?
  # (no git stash: the stash is shared between the worktrees of one repository)
  git checkout -q -- src
  PYTHONPATH=$wt/src timeout 600 /venv/bin/python $demo > /tmp/seed_${name}_without.txt 2>&1; rc_without=$?
  git apply /tmp/seed_$name.diff
  PYTHONPATH=$wt/src timeout 1500 /venv/bin/python -m pytest -q -p no:cacheprovider --timeout=900 src/experimaestro/tests > /tmp/seed_${name}_tests.txt 2>&1
  summary=$(tail -1 /tmp/seed_${name}_tests.txt)
  failed=$(grep -E "^(FAILED|ERROR)" /tmp/seed_${name}_tests.txt | grep -v -E "test_token_fail|test_restart\[|test_token_restart\[|test_slurm_batchprocess|test_foreign_type|test_token_cleanup" | head -5)
  echo "demo with change: rc=$rc_with ; without: rc=$rc_without ; tests: $summary"
  [ -n "$failed" ] && echo "unexpected test failures: $failed"
  if [ $rc_with -ne 0 ] && [ $rc_without -eq 0 ] && [ -z "$failed" ]; then
    d=/verif/seeded/$name; mkdir -p $d
    cp /tmp/seed_$name.diff $d/patch.diff; cp $demo $d/demo.py; cp MUTATION/meta.json $d/agent_meta.json 2>/dev/null
    echo "{\"property\": \"$id\", \"confirmed\": {\"demo_with_change_rc\": $rc_with, \"demo_without_change_rc\": $rc_without, \"tests\": \"$summary\"}}" > $d/confirm.json
    echo "CONFIRMED -> $d"
  else
    echo "NOT CONFIRMED"; tail -5 /tmp/seed_${name}_with.txt; tail -5 /tmp/seed_${name}_without.txt
  fi
  ;;
run)
  name=$1; shift
  cd /repo && git diff --quiet || { echo "/repo not clean"; exit 2; }
  git -C /repo apply /verif/seeded/$name/patch.diff || { echo "patch does not apply"; exit 2; }
  cd /verif
  for c in "$@"; do
    out=$(./check $c --tier quick 2>&1); rc=$?
    echo "== $name / $c: exit $rc"; echo "$out" | grep -E "key=|^\[C|HARNESS" | cut -c1-260 | head -8
  done
  git -C /repo checkout -- . ; git -C /repo status --short | head -3
  ;;
esac
