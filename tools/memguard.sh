#!/bin/bash
# kills the biggest "./check" process tree when available memory drops below 8 GB
while true; do
  avail=$(awk '/MemAvailable/ {print int($2/1024)}' /proc/meminfo)
  if [ "$avail" -lt 8000 ]; then
    echo "$(date) avail=${avail}MB: killing check processes" >> /root/logs/memguard.log
    ps -eo pid,rss,args --sort=-rss | head -5 >> /root/logs/memguard.log
    pkill -9 -f 'check C[0-9][0-9] --tier thorou[g]h'
    pkill -9 -f 'multiprocessing[.]spawn'
    sleep 5
  fi
  sleep 5
done
