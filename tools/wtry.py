#!/venv/bin/python
"""tools/wtry.py <props,comma> <wcat function>[:name-substring] [policies,comma] [bound] [demote] : explores a few scenarios of the virtual world
(development aid: same search as the checks, no evidence written).  PYTHONPATH=<worktree>/src selects another tree."""
import os
import sys
from pathlib import Path

sys.path.insert(0, str(Path(__file__).resolve().parent.parent))
os.environ.setdefault("EXPERIMAESTRO_VERIF", "1")


def main():
    from engines import wcat
    from engines.explore import Search
    from engines.pool import Pool
    props = sys.argv[1].split(",")
    fn, _, sub = sys.argv[2].partition(":")
    pols = tuple(sys.argv[3].split(";")) if len(sys.argv) > 3 else ("FIFO",)
    bound = int(sys.argv[4]) if len(sys.argv) > 4 else 1
    demote = len(sys.argv) > 5
    scens = [s for s in eval("wcat." + fn if "(" in fn else f"wcat.{fn}()") if sub in s["name"]]
    print("scenarios:", [s["name"] for s in scens])
    with Pool(seeds=[0], init="engines.explore:worker_init", recycle=None) as pool:
        S = Search(pool, props)
        S.explore_block(scens, pols, bound, demote=demote)
        print("executions", getattr(S, "executions", None))
        seen = {}
        for p, key, msg, payload in S.violations:
            k = (p, key, payload["scen"]["name"])
            seen.setdefault(k, [0, msg, payload])[0] += 1
        for (p, key, name), (n, msg, payload) in sorted(seen.items()):
            print(f"{p} {key} [{name} / {payload['policy']} / {payload['schedule']}] x{n}: {msg[:300]}")
        print("violations:", len(S.violations))


if __name__ == "__main__":
    main()
